import json,glob,collections,sys
c=collections.Counter(); ex={}
for f in glob.glob(f'/verif/.work/{sys.argv[1]}/*.jsonl'):
    for l in open(f):
        try: e=json.loads(l)
        except: continue
        if e.get('ev')=='violation':
            k=(e['v']['kind'], json.dumps(e['v']['features'],sort_keys=True)[:200]); c[k]+=1; ex.setdefault(k,(e['case'],e['v'].get('detail')))
for k,v in c.most_common(): print(v,k, '  e.g. case',ex[k][0], (str(ex[k][1])[:int(sys.argv[2])] if len(sys.argv)>2 else ''))
