"""Fresh-process reference for C14: quantize() bytes of (model, recipe, statistics) triples.

usage: c14_ref.py <triples.pkl> <order: fwd|rev>  -> JSON lines {"i":..,"sha":..}
Each triple is computed by a brand-new Quantizer; the process is started by the
harness with its own PYTHONHASHSEED.
"""
import copy
import hashlib
import json
import pickle
import sys
import absl.logging
absl.logging.set_verbosity(absl.logging.ERROR)
from ai_edge_quantizer import quantizer


def main():
  with open(sys.argv[1], 'rb') as f:
    triples = pickle.load(f)
  idx = list(range(len(triples)))
  if sys.argv[2] == 'rev':
    idx.reverse()
  for i in idx:
    t = triples[i]
    try:
      q = quantizer.Quantizer(t['model'], copy.deepcopy(t['recipe']))
      out = q.quantize(copy.deepcopy(t['cal']))
      sha = hashlib.sha256(bytes(out.quantized_model)).hexdigest()
    except Exception as e:  # pylint: disable=broad-except
      sha = 'EXC:' + type(e).__name__
    print(json.dumps({'i': i, 'sha': sha}), flush=True)


if __name__ == '__main__':
  main()
