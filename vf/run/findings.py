"""Known-findings matcher.  The file is committed and never written at run time.

Entry:
 {"id": "KF-...", "property": "Cxx" | ["Cxx", ...], "status": "open"|"fixed",
  "commit": "<sha for fixed>", "what": "<one line>",
  "match": {"kind": "<oracle verdict kind>" | [..],
            "features": {"<feature>": <value> | {"re": "<regex>"} | {"in": [..]} | {"ge": n}}}}

A violation is attributed to an OPEN entry only if the property, the oracle
verdict kind and every listed witness feature agree.  Keys are mechanisms
(operator type, operand kind, config class, exception signature), never seeds
or hashes.  Fixed entries suppress nothing.
"""
import json
import os
import re


def load(path):
  if not os.path.exists(path):
    return []
  with open(path) as f:
    return json.load(f)['findings']


def _feat_ok(spec, val):
  if isinstance(spec, dict):
    if 're' in spec:
      return val is not None and re.search(spec['re'], str(val)) is not None
    if 'in' in spec:
      return val in spec['in']
    if 'ge' in spec:
      return val is not None and val >= spec['ge']
    if 'contains' in spec:
      return val is not None and spec['contains'] in val
    return False
  return spec == val


def match(entries, prop, violation):
  for e in entries:
    if e.get('status') != 'open':
      continue
    props = e['property'] if isinstance(e['property'], list) else [e['property']]
    if prop not in props:
      continue
    m = e['match']
    kinds = m['kind'] if isinstance(m['kind'], list) else [m['kind']]
    if violation['kind'] not in kinds:
      continue
    feats = violation.get('features') or {}
    if all(_feat_ok(spec, feats.get(k)) for k, spec in (m.get('features') or {}).items()):
      return e
  return None
