"""Attribution of an interpreter abort: the saved model + inputs are re-run under
`gdb -batch` and the aborting LiteRT kernel is read off the native backtrace."""
import os
import re
import subprocess
import sys

RUNNER = r'''
import sys, numpy as np
from ai_edge_litert import interpreter as tfl
m = open(sys.argv[1], 'rb').read()
z = np.load(sys.argv[2])
it = tfl.Interpreter(model_content=m, experimental_op_resolver_type=tfl.OpResolverType.BUILTIN_WITHOUT_DEFAULT_DELEGATES,
                     experimental_preserve_all_tensors=True)
it.allocate_tensors()
keys = sorted({k.split('|')[0] for k in z.files})
for key in keys:
    r = it.get_signature_runner(key)
    feed = {}
    for arg, d in r.get_input_details().items():
        x = z[key + '|' + arg]
        sc = d['quantization_parameters']['scales']
        if len(sc) and np.issubdtype(d['dtype'], np.integer) and x.dtype.kind == 'f':
            zp = d['quantization_parameters']['zero_points']; ii = np.iinfo(d['dtype'])
            x = np.clip(np.rint(x.astype(np.float64) / float(sc[0])) + int(zp[0]), ii.min, ii.max).astype(d['dtype'])
        feed[arg] = x
    r(**feed)
print('NO_ABORT')
'''


def save(workdir, content, feeds):
  """feeds: {signature key: {arg: ndarray}}; returns (model path, feeds path)."""
  import numpy as np
  os.makedirs(workdir, exist_ok=True)
  mp = os.path.join(workdir, f'risky_{os.getpid()}.tflite')
  fp = os.path.join(workdir, f'risky_{os.getpid()}.npz')
  with open(mp, 'wb') as f:
    f.write(content)
  np.savez(fp, **{f'{k}|{a}': v for k, d in feeds.items() for a, v in d.items()})
  return mp, fp


def attribute(model_path, feeds_path, python, env, timeout=180):
  """Returns {'abort_kernel': name|None, 'abort_frame': str, 'reproduced': bool}."""
  out = {'abort_kernel': None, 'abort_frame': None, 'reproduced': False}
  if not (model_path and os.path.exists(model_path) and os.path.exists(feeds_path)):
    return out
  script = model_path + '.runner.py'
  with open(script, 'w') as f:
    f.write(RUNNER)
  try:
    p = subprocess.run(['gdb', '-batch', '-ex', 'run', '-ex', 'bt 12', '--args', python, script, model_path, feeds_path],
                       env=env, capture_output=True, text=True, timeout=timeout)
    txt = p.stdout + p.stderr
  except Exception as e:  # pylint: disable=broad-except
    out['abort_frame'] = f'gdb failed: {e}'
    return out
  finally:
    try:
      os.remove(script)
    except OSError:
      pass
  if 'SIGABRT' in txt or 'SIGSEGV' in txt:
    out['reproduced'] = True
  m = re.search(r'tflite::ops::builtin::(\w+)::(\w+)', txt)
  if m:
    out['abort_kernel'] = m.group(1)
    out['abort_frame'] = m.group(0)
  return out
