"""Parent process of a check: shards cases over child interpreters, attributes
crashes through the flushed call/return log, matches violations against the
committed known-findings file, writes replays and evidence.

Exit codes: 0 held on everything explored, 1 violation (VIOLATION line printed),
2 inconclusive (no VIOLATION line).
"""
import argparse
import collections
import hashlib
import importlib
import json
import os
import subprocess
import sys
import time

ROOT = os.path.dirname(os.path.dirname(os.path.dirname(os.path.abspath(__file__))))
REPO = os.environ.get('AEQ_REPO', '/repo')
PY = os.environ.get('AEQ_PYTHON', '/venv/bin/python')
GUARD = 'AI_EDGE_QUANTIZER_VERIF'


def child_env(extra=None):
  env = dict(os.environ)
  env['PYTHONPATH'] = os.pathsep.join([REPO, ROOT])
  env['PYTHONHASHSEED'] = env.get('VERIF_HASHSEED', '0')
  env['TF_CPP_MIN_LOG_LEVEL'] = '3'
  env['PYTHONDONTWRITEBYTECODE'] = '1'
  env['PYTHONFAULTHANDLER'] = '1'
  env['OMP_NUM_THREADS'] = '1'
  env['TF_NUM_INTRAOP_THREADS'] = '1'
  env[GUARD] = '1'
  if extra:
    env.update(extra)
  return env


def _read_log(path):
  evs = []
  if not os.path.exists(path):
    return evs
  with open(path) as f:
    for line in f:
      line = line.strip()
      if not line:
        continue
      try:
        evs.append(json.loads(line))
      except json.JSONDecodeError:
        pass  # torn last line of a killed child
  return evs


class ShardRunner:
  """Runs one shard to completion, restarting the child after a crash."""

  def __init__(self, prop, tier, seed, shard, nshards, n_cases, workdir, timeout_s, only_case=None):
    self.prop, self.tier, self.seed = prop, tier, seed
    self.shard, self.nshards, self.n_cases = shard, nshards, n_cases
    self.log = os.path.join(workdir, f'shard{shard}.jsonl')
    self.err = os.path.join(workdir, f'shard{shard}.stderr')
    self.timeout_s = timeout_s
    self.only_case = only_case
    self.proc = None
    self.skip_through = -1
    self.crashes = []       # synthesized events
    self.inconclusive = []  # reasons
    self.t0 = None
    self.restarts = 0
    self.done = False
    open(self.log, 'w').close()

  def start(self):
    cmd = [PY, '-m', 'vf.run.child', self.prop, self.tier, str(self.seed), str(self.shard),
           str(self.nshards), str(self.n_cases), self.log, str(self.skip_through)]
    if self.only_case is not None:
      cmd.append(str(self.only_case))
    self.t0 = time.time()
    self.proc = subprocess.Popen(cmd, cwd=ROOT, env=child_env(), stdout=subprocess.DEVNULL,
                                 stderr=open(self.err, 'ab'))

  def poll(self):
    """Returns True when the shard is finished."""
    if self.done:
      return True
    rc = self.proc.poll()
    if rc is None:
      if time.time() - self.t0 > self.timeout_s:
        self.proc.kill()
        self.proc.wait()
        self.inconclusive.append(f'shard {self.shard}: wall-clock watchdog ({self.timeout_s}s) fired')
        self.done = True
        return True
      return False
    if rc == 0:
      self.done = True
      return True
    # Child died: find the last open call.
    evs = _read_log(self.log)
    last_case = None
    open_call = None
    for e in evs:
      if e.get('ev') == 'case_start':
        last_case = e['case']
        open_call = None
      elif e.get('ev') == 'call':
        open_call = e
      elif e.get('ev') == 'ret':
        open_call = None
      elif e.get('ev') == 'case':
        last_case = None
    tail = ''
    try:
      with open(self.err, 'rb') as f:
        tail = f.read()[-1500:].decode('utf8', 'replace')
    except OSError:
      pass
    if last_case is None or self.restarts > 200:
      self.inconclusive.append(f'shard {self.shard}: child exited rc={rc} outside any case; stderr tail: {tail[-400:]}')
      self.done = True
      return True
    self.crashes.append({'case': last_case, 'rc': rc, 'open_call': open_call, 'stderr_tail': tail})
    self.skip_through = last_case
    self.restarts += 1
    if self.only_case is not None:
      self.done = True
      return True
    self.start()
    return False


def _digest(obj):
  return hashlib.sha256(json.dumps(obj, sort_keys=True, default=str).encode()).hexdigest()[:16]


def run(prop, tier, seed, only_case=None, quiet=False):
  from vf.run import findings as kf_mod
  t_start = time.time()
  mod = importlib.import_module(f'vf.props.{prop.lower()}')
  plan = mod.plan(tier)
  n_cases = plan['n_cases']
  nshards = min(plan.get('shards', 16), max(1, n_cases))
  timeout_s = plan.get('timeout_s', 1800 if tier == 'quick' else 4 * 3600)
  alt = '' if REPO == '/repo' else '_alt' + hashlib.sha1(REPO.encode()).hexdigest()[:8]   # scratch copies never share a work dir with /repo
  workdir = os.path.join(ROOT, '.work', f'{prop}_{tier}_{seed}' + ('_replay' if only_case is not None else '') + alt)
  os.makedirs(workdir, exist_ok=True)
  for f in os.listdir(workdir):
    os.remove(os.path.join(workdir, f))
  if only_case is not None:
    shards = [ShardRunner(prop, tier, seed, only_case % nshards, nshards, n_cases, workdir, timeout_s, only_case)]
  else:
    shards = [ShardRunner(prop, tier, seed, s, nshards, n_cases, workdir, timeout_s) for s in range(nshards)]
  for s in shards:
    s.start()
  while not all(s.poll() for s in shards):
    time.sleep(0.2)

  # ---- aggregate
  stats = collections.Counter()
  maxes = {}
  cases = []
  samples = []
  inconclusive = []
  crash_events = []
  violations = []   # dicts: case, kind, features, detail
  for s in shards:
    inconclusive += s.inconclusive
    crash_events += s.crashes
    for e in _read_log(s.log):
      if e.get('ev') == 'violation':
        v = dict(e['v'])
        v['case'] = e['case']
        violations.append(v)
      if e.get('ev') == 'case':
        cases.append(e)
        for k, v in (e.get('stats') or {}).items():
          stats[k] += v
        for k, v in (e.get('max') or {}).items():
          maxes[k] = max(maxes.get(k, v), v)
        if e.get('sample') is not None and len(samples) < 200:
          samples.append((e['case'], e['sample']))
  cases.sort(key=lambda e: e['case'])
  samples.sort(key=lambda x: x[0])

  for e in cases:
    if e.get('outcome') == 'inconclusive':
      inconclusive.append(f"case {e['case']}: {e.get('reason')}")
  for c in crash_events:
    oc = c['open_call'] or {}
    v = mod.crash_to_violation(oc, c) if hasattr(mod, 'crash_to_violation') else None
    if v is None:
      inconclusive.append(f"case {c['case']}: child died rc={c['rc']} in {oc.get('what')}: {c['stderr_tail'][-300:]}")
    else:
      v['case'] = c['case']
      violations.append(v)
      stats['process_abort'] += 1

  kf = kf_mod.load(os.path.join(ROOT, 'known_findings.json'))
  known_hits = collections.Counter()
  unknown = []
  for v in violations:
    hit = kf_mod.match(kf, prop, v)
    if hit:
      known_hits[hit['id']] += 1
    else:
      unknown.append(v)

  executed = [e for e in cases if e.get('outcome') in ('held', 'violated')]
  nontrivial_keys = {e['key'] for e in executed if e.get('nontrivial') and e.get('key')}
  n_eval = len(executed)
  if any(e.get('units') for e in executed):
    n_eval = sum(len(e.get('units') or []) for e in executed)
    nontrivial_keys = {u[0] for e in executed for u in (e.get('units') or []) if u[1]}
  summary = mod.summarize(dict(stats=stats, max=maxes, cases=cases, tier=tier)) if hasattr(mod, 'summarize') else {}
  inconclusive += summary.get('inconclusive', [])
  if not executed:
    inconclusive.append('no case was executed')

  # ---- replays for unknown violations
  lines = []
  replay_dir = os.path.join(ROOT, 'replays', prop)
  if unknown and only_case is None:
    os.makedirs(replay_dir, exist_ok=True)
  seen = set()
  for v in unknown:
    sig = (v['kind'], _digest(v.get('features')))
    path = os.path.join('replays', prop, f"seed{seed}_{tier}_case{v['case']}.json")
    if only_case is None:
      with open(os.path.join(ROOT, path), 'w') as f:
        json.dump({'property': prop, 'tier': tier, 'seed': seed, 'case': v['case'],
                   'n_cases': n_cases, 'violation': v}, f, indent=1, default=str)
    if sig in seen or len(lines) >= 25:
      continue
    seen.add(sig)
    if f'VIOLATION property={prop} replay={path}' not in lines:
      lines.append(f'VIOLATION property={prop} replay={path}')
    if not quiet:
      print(f"  [{v['kind']}] case={v['case']} features={json.dumps(v.get('features'), default=str)[:600]}")
      if v.get('detail'):
        print(f"     detail: {str(v['detail'])[:800]}")

  for fid, n in sorted(known_hits.items()):
    ent = next(e for e in kf if e['id'] == fid)
    print(f"KNOWN-FINDING: property={prop} {fid} {ent['what']} (observed {n}x)")

  wall = time.time() - t_start
  if only_case is None:
    cov = {
        'evaluations': n_eval,
        'cases': len(executed),
        'distinct_nontrivial': len(nontrivial_keys),
        'rule': summary.get('rule', getattr(mod, 'RULE', '')),
        'samples': [s for _, s in samples[:5]],
        'outcomes': dict(collections.Counter(e.get('outcome') for e in cases)),
        'skipped_reasons': dict(collections.Counter(e.get('reason') for e in cases if e.get('outcome') == 'skipped')),
        'counters': dict(sorted(stats.items())),
        'max': maxes,
        'known_findings_matched': dict(known_hits),
        'unknown_violation_kinds': dict(collections.Counter(v['kind'] for v in unknown)),
        'inconclusive': inconclusive[:20],
        'process_aborts': len(crash_events),
        'planned_cases': n_cases,
        'shards': nshards,
    }
    cov.update(summary.get('coverage', {}))
    level = getattr(mod, 'LEVEL', 'exploration')
    ev = {
        'property_id': prop, 'tier': tier, 'seed': seed, 'level': level, 'coverage': cov,
        'assumptions': getattr(mod, 'ASSUMPTIONS', []),
        'wall_s': round(wall, 2), 'violations': len(unknown),
    }
    evdir = os.path.join(ROOT, 'evidence') if REPO == '/repo' else os.path.join(ROOT, '.work', 'evidence_other_repo')
    os.makedirs(evdir, exist_ok=True)
    with open(os.path.join(evdir, f'{prop}.json'), 'w') as f:
      json.dump(ev, f, indent=1, default=str)

  for l in lines:
    print(l)
  verdict = 1 if unknown else (2 if inconclusive else 0)
  if not quiet:
    print(f"{prop} {tier} seed={seed}: cases={len(executed)} evaluations={cov['evaluations'] if only_case is None else n_eval} distinct_nontrivial={cov['distinct_nontrivial'] if only_case is None else len(nontrivial_keys)} "
          f'violations={len(unknown)} known={sum(known_hits.values())} aborts={len(crash_events)} '
          f'inconclusive={len(inconclusive)} wall={wall:.1f}s -> '
          + {0: 'HELD on what was observed', 1: 'VIOLATED', 2: 'INCONCLUSIVE'}[verdict])
    for r in inconclusive[:10]:
      print('  inconclusive:', r[:500])
  return verdict


def main():
  ap = argparse.ArgumentParser()
  ap.add_argument('prop')
  ap.add_argument('tier', nargs='?', default=os.environ.get('VERIF_TIER', 'quick'))
  ap.add_argument('--replay')
  ap.add_argument('--case', type=int)
  a = ap.parse_args()
  seed = int(os.environ.get('VERIF_SEED', '0'))
  tier = a.tier
  only = a.case
  if a.replay:
    with open(a.replay) as f:
      r = json.load(f)
    seed, tier, only = r['seed'], r['tier'], r['case']
  sys.exit(run(a.prop.upper(), tier, seed, only_case=only))


if __name__ == '__main__':
  main()
