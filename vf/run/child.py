"""Child process: executes the cases of one shard, appends JSON lines to the shard log.

Every risky call (interpreter on quantizer output) is bracketed by flushed
call/ret events so that the parent can attribute an abort of this process.
"""
import collections
import faulthandler
import importlib
import json
import os
import sys
import time
import traceback

faulthandler.enable()


class Ctx:
  """Per-case context handed to a property module."""

  def __init__(self, logf, tier, seed):
    self._f = logf
    self.tier = tier
    self.seed = seed
    self.case = None
    self.reset()

  def reset(self):
    self.stats = collections.Counter()
    self.maxes = {}
    self.violations = []
    self.sample = None
    self.key = None
    self.nontrivial = False
    self.units = []

  def emit(self, ev):
    self._f.write(json.dumps(ev, default=_default) + '\n')
    self._f.flush()
    os.fsync(self._f.fileno()) if ev.get('ev') == 'call' else None

  def count(self, k, n=1):
    self.stats[k] += n

  def observe_max(self, k, v):
    v = float(v)
    if k not in self.maxes or v > self.maxes[k]:
      self.maxes[k] = v

  def violation(self, kind, features=None, detail=None):
    v = {'kind': kind, 'features': features or {}, 'detail': detail}
    self.violations.append(v)
    self.emit({'ev': 'violation', 'case': self.case, 'v': v})

  def unit(self, key, nontrivial=True):
    """Registers one evaluated unit (e.g. a (model, recipe) pair) of this case."""
    self.units.append([key, bool(nontrivial)])

  def risky(self, what, fn, info=None):
    """Runs fn() bracketed by flushed call/ret events."""
    self.emit({'ev': 'call', 'case': self.case, 'what': what, 'info': info or {}})
    try:
      return fn()
    finally:
      self.emit({'ev': 'ret', 'case': self.case, 'what': what})


def _default(o):
  import numpy as np
  if isinstance(o, (np.integer,)):
    return int(o)
  if isinstance(o, (np.floating,)):
    return float(o)
  if isinstance(o, np.ndarray):
    return o.tolist()
  if isinstance(o, bytes):
    return o.decode('utf8', 'replace')
  if isinstance(o, (set, frozenset)):
    return sorted(o)
  return str(o)


def main():
  prop, tier, seed, shard, nshards, n_cases, log, skip_through = sys.argv[1:9]
  seed, shard, nshards, n_cases, skip_through = map(int, (seed, shard, nshards, n_cases, skip_through))
  only = int(sys.argv[9]) if len(sys.argv) > 9 else None
  if os.environ.get('VERIF_COVERAGE'):
    # reach audit (tools/reach_audit.sh): which library lines do the workloads execute at all?
    import atexit
    import coverage
    cov = coverage.Coverage(data_file=os.environ['VERIF_COVERAGE'], data_suffix=True,
                            include=['*/ai_edge_quantizer/*'], omit=['*_test.py'])
    cov.start()
    atexit.register(lambda: (cov.stop(), cov.save()))
  import absl.logging
  absl.logging.set_verbosity(absl.logging.ERROR)
  import numpy as np
  np.seterr(all='ignore')
  import warnings
  warnings.filterwarnings('ignore')
  mod = importlib.import_module(f'vf.props.{prop.lower()}')
  pnum = int(prop[1:])
  with open(log, 'a') as f:
    ctx = Ctx(f, tier, seed)
    if hasattr(mod, 'setup'):
      mod.setup(ctx)
    ids = [only] if only is not None else range(shard, n_cases, nshards)
    for case in ids:
      if case <= skip_through and only is None:
        continue
      ctx.reset()
      ctx.case = case
      ctx.emit({'ev': 'case_start', 'case': case})
      rng = np.random.default_rng([seed, pnum, case])
      t0 = time.time()
      try:
        res = mod.run_case(ctx, case, rng) or {}
        outcome = res.get('outcome') or ('violated' if ctx.violations else 'held')
        reason = res.get('reason')
      except Exception as e:  # harness error: never a verdict
        outcome = 'inconclusive'
        reason = 'harness exception: ' + ''.join(traceback.format_exception(e))[-1500:]
      ctx.emit({'ev': 'case', 'case': case, 'outcome': outcome, 'reason': reason,
                'n_violations': len(ctx.violations), 'stats': dict(ctx.stats), 'max': ctx.maxes,
                'sample': ctx.sample, 'key': ctx.key, 'nontrivial': ctx.nontrivial, 'units': ctx.units,
                'dt': round(time.time() - t0, 3)})
    if hasattr(mod, 'teardown'):
      mod.teardown(ctx)


if __name__ == '__main__':
  main()
