"""Runtime contracts on the arithmetic kernel (C17; active in every pipeline run).

Post-conditions are attached with icontract.ensure (named condition functions,
explicit error class) to the real functions by rebinding the module attributes
the library itself looks up.  Conditions RECORD a failure and return True, so a
contract never changes what the wrapped function returns or aborts the run it
observes.  If icontract cannot be imported an in-tree shim with the same
ensure() shape is used; `BACKEND` says which one ran.
"""
import collections
import functools
import os
import sys
import numpy as np

_DEPS = os.path.join(os.path.dirname(os.path.dirname(os.path.dirname(os.path.abspath(__file__)))), '.deps')
try:
  if _DEPS not in sys.path:
    sys.path.append(_DEPS)  # at the END: must not shadow the repository's own packages
  import icontract  # pylint: disable=g-import-not-at-top
  BACKEND = 'icontract ' + icontract.__version__
except Exception:  # pylint: disable=broad-except
  icontract = None
  BACKEND = 'shim'


class ContractBroken(Exception):
  pass


EVALS = collections.Counter()
FAILURES = []          # [(contract, kind, features, detail)]
_installed = False


def _fail(contract, kind, features, detail):
  if len(FAILURES) < 2000:
    FAILURES.append((contract, kind, features, detail))


def drain():
  out = list(FAILURES)
  FAILURES.clear()
  return out


def _ensure(cond):
  """icontract.ensure(cond, error=ContractBroken) or the shim equivalent."""
  if icontract is not None:
    return icontract.ensure(cond, error=ContractBroken)

  def deco(fn):
    import inspect
    sig = inspect.signature(fn)
    want = list(inspect.signature(cond).parameters)

    @functools.wraps(fn)
    def wrapper(*a, **k):
      result = fn(*a, **k)
      ba = sig.bind(*a, **k)
      ba.apply_defaults()
      kw = {n: (result if n == 'result' else ba.arguments[n]) for n in want}
      if not cond(**kw):
        raise ContractBroken(cond.__name__)
      return result
    return wrapper
  return deco


def _qrange(bits, narrow):
  qmax = 2 ** (bits - 1) - 1
  qmin = -(2 ** (bits - 1))
  return (qmin + 1 if narrow else qmin), qmax


def _finite_ordered(mn, mx):
  mn = np.asarray(mn, dtype=np.float64)
  mx = np.asarray(mx, dtype=np.float64)
  return bool(np.all(np.isfinite(mn)) and np.all(np.isfinite(mx)) and np.all(mn <= mx))


# ---- tensor_zp_scale_from_min_max

def zs_post(min_value, max_value, num_bits, symmetric, result):
  EVALS['tensor_zp_scale_from_min_max'] += 1
  if not _finite_ordered(min_value, max_value):
    EVALS['tensor_zp_scale_from_min_max:precondition_not_met'] += 1
    return True
  zp, scale = result
  sc = np.asarray(scale, dtype=np.float64)
  z = np.asarray(zp)
  tag = {'bits': int(num_bits), 'symmetric': bool(symmetric)}
  mn = np.asarray(min_value, dtype=np.float64)
  mx = np.asarray(max_value, dtype=np.float64)
  in_dt = np.asarray(min_value).dtype
  if not (np.all(np.isfinite(sc)) and np.all(sc > 0)):
    width = np.maximum(mx, 0) - np.minimum(mn, 0)
    overflow = bool(in_dt.kind == 'f' and np.any(width > np.finfo(in_dt).max))
    _fail('zs', 'scale_not_finite_positive', dict(tag, width_overflows_input_dtype=overflow, input_dtype=str(in_dt)),
          {'min': mn.ravel()[:4].tolist(), 'max': mx.ravel()[:4].tolist(), 'scale': sc.ravel()[:4].tolist()})
    return True
  qmin, qmax = _qrange(num_bits, False)
  if not np.issubdtype(z.dtype, np.integer):
    _fail('zs', 'zero_point_not_integer', tag, str(z.dtype))
    return True
  if np.any(z < qmin) or np.any(z > qmax):
    _fail('zs', 'zero_point_out_of_range', tag, z.ravel()[:4].tolist())
  if symmetric and np.any(z != 0):
    _fail('zs', 'zero_point_nonzero_symmetric', tag, z.ravel()[:4].tolist())
  if sc.shape != z.shape:
    _fail('zs', 'shape_mismatch', tag, [list(sc.shape), list(z.shape)])
    return True
  lo_q = (-qmax if symmetric else qmin)
  lo = (lo_q - z.astype(np.float64)) * sc
  hi = (qmax - z.astype(np.float64)) * sc
  slack = 0.5 * sc * (1 + 1e-3) + 1e-6 * np.maximum(np.abs(mn), np.abs(mx))
  if np.any(lo > np.minimum(mn, 0) + slack) or np.any(hi < np.maximum(mx, 0) - slack):
    _fail('zs', 'range_not_covered', tag,
          {'min': mn.ravel()[:3].tolist(), 'max': mx.ravel()[:3].tolist(), 'lo': lo.ravel()[:3].tolist(),
           'hi': hi.ravel()[:3].tolist()})
  return True


# ---- uniform_quantize

def _expand(p, ndim):
  """scale / zero point broadcastable against a tensor of rank ndim (independent of the library's fix-up)."""
  sc = np.asarray(p.scale, dtype=np.float64)
  zp = np.asarray(p.zero_point).astype(np.int64)
  if sc.ndim == ndim or sc.size == 1:
    return (sc.reshape(()) if sc.size == 1 and sc.ndim != ndim else sc), (zp.reshape(()) if zp.size == 1 and zp.ndim != ndim else zp)
  shp = [1] * ndim
  shp[p.quantized_dimension] = sc.size
  return sc.reshape(shp), zp.reshape(shp)


def uq_post(tensor_data, quantization_params, result):
  EVALS['uniform_quantize'] += 1
  p = quantization_params
  x = np.asarray(tensor_data)
  q = np.asarray(result)
  tag = {'bits': int(p.num_bits), 'symmetric': bool(p.symmetric)}
  want = np.int8 if p.num_bits <= 8 else np.int16 if p.num_bits <= 16 else np.int32 if p.num_bits <= 32 else np.int64
  if q.dtype != want:
    _fail('uq', 'result_dtype', tag, str(q.dtype))
  if q.shape != x.shape:
    _fail('uq', 'result_shape', tag, [list(q.shape), list(x.shape)])
    return True
  lo_q, hi_q = _qrange(p.num_bits, p.symmetric)
  if q.size and (q.min() < lo_q or q.max() > hi_q):
    _fail('uq', 'code_out_of_range', tag, [int(q.min()), int(q.max())])
  try:
    sc, zp = _expand(p, x.ndim)
  except Exception:  # pylint: disable=broad-except
    return True
  if not (np.all(np.isfinite(sc)) and np.all(sc > 0)) or not np.all(np.isfinite(x)):
    EVALS['uniform_quantize:precondition_not_met'] += 1
    return True
  x64 = x.astype(np.float64)
  back = (q.astype(np.int64) - zp).astype(np.float64) * sc
  lo = (lo_q - zp) * sc
  hi = (hi_q - zp) * sc
  inr = (x64 >= lo) & (x64 <= hi)
  if np.any(inr):
    tol = 0.51 * sc + np.abs(x64) * 2.0 ** -21  # half a step + float32 resolution of x/scale+zp
    bad = inr & (np.abs(back - x64) > tol)
    if np.any(bad):
      i = np.argwhere(bad)[0]
      _fail('uq', 'roundtrip_exceeds_half_step', tag,
            {'x': float(x64[tuple(i)]), 'back': float(back[tuple(i)]), 'step': float(np.broadcast_to(sc, x.shape)[tuple(i)]),
             'n_bad': int(bad.sum())})
  # saturation goes to the right end
  if np.any(~inr):
    below = x64 < lo
    above = x64 > hi
    qlo = np.broadcast_to(lo_q, q.shape)
    if np.any(below & (q != lo_q)) and np.any(below & (np.abs((x64 - lo) / sc) > 0.5 + 1e-3) & (q != lo_q)):
      _fail('uq', 'saturation_low_wrong', tag, None)
    if np.any(above & (np.abs((x64 - hi) / sc) > 0.5 + 1e-3) & (q != hi_q)):
      _fail('uq', 'saturation_high_wrong', tag, None)
  if sc.size == 1 and x.size > 1:
    order = np.argsort(x64, axis=None, kind='stable')
    if np.any(np.diff(q.reshape(-1)[order].astype(np.int64)) < 0):
      _fail('uq', 'not_monotone', tag, None)
  return True


# ---- uniform_dequantize

def dq_post(tensor_data, quantization_params, result):
  EVALS['uniform_dequantize'] += 1
  q = np.asarray(tensor_data)
  if not np.issubdtype(q.dtype, np.integer):
    EVALS['uniform_dequantize:non_integer_input'] += 1
    return True
  p = quantization_params
  try:
    sc, zp = _expand(p, q.ndim)
  except Exception:  # pylint: disable=broad-except
    return True
  if not np.all(np.isfinite(sc)):
    return True
  ref = (q.astype(np.int64) - zp).astype(np.float64) * sc
  got = np.asarray(result, dtype=np.float64)
  if got.shape != ref.shape or not np.allclose(got, ref, rtol=1e-6, atol=0):
    n_bad = int(np.sum(~np.isclose(got, ref, rtol=1e-6, atol=0))) if got.shape == ref.shape else -1
    _fail('dq', 'differs_from_wide_integer_reference',
          {'bits': int(p.num_bits), 'data_dtype': str(q.dtype), 'zp_dtype': str(np.asarray(p.zero_point).dtype)},
          {'n_bad': n_bad, 'zp': np.asarray(p.zero_point).ravel()[:3].tolist()})
  return True


# ---- symmetric_quantize_bias_tensor

def bias_post(bias_content, input_tensor_quant_params, weight_tensor_quant_params, result):
  EVALS['symmetric_quantize_bias_tensor'] += 1
  r = result
  isc = np.asarray(input_tensor_quant_params.scale, dtype=np.float64)
  wsc = np.asarray(weight_tensor_quant_params.scale, dtype=np.float64)
  want = np.squeeze(isc * wsc).reshape(-1)
  got = np.asarray(r.scale, dtype=np.float64).reshape(-1)
  tag = {'in_bits': int(input_tensor_quant_params.num_bits)}
  if got.shape != want.shape or not np.allclose(got, want, rtol=1e-6, atol=0):
    _fail('bias', 'scale_not_product', tag, {'got': got[:3].tolist(), 'want': want[:3].tolist()})
  if np.any(np.asarray(r.zero_point) != 0):
    _fail('bias', 'zero_point_nonzero', tag, None)
  if r.num_bits != (64 if input_tensor_quant_params.num_bits == 16 else 32):
    _fail('bias', 'bit_width', tag, int(r.num_bits))
  return True


def install():
  """Attaches the contracts to the real functions (idempotent).  Returns names hooked."""
  global _installed
  from ai_edge_quantizer.algorithms.uniform_quantize import uniform_quantize_tensor as u
  if _installed:
    return []
  hooked = []
  for name, cond in (('tensor_zp_scale_from_min_max', zs_post), ('uniform_quantize', uq_post),
                     ('uniform_dequantize', dq_post), ('symmetric_quantize_bias_tensor', bias_post)):
    fn = getattr(u, name, None)
    if fn is None:
      continue  # refactored tree: monitor disables itself, evidence says so
    import inspect
    have = set(inspect.signature(fn).parameters)
    need = set(inspect.signature(cond).parameters) - {'result'}
    if not need <= have:
      continue
    try:
      setattr(u, name, _ensure(cond)(fn))
      hooked.append(name)
    except Exception:  # pylint: disable=broad-except
      pass
  _installed = True
  return hooked
