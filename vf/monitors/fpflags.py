"""Floating-point exception monitor (the numpy analogue of -fsanitize=float-cast-overflow / float-divide-by-zero).

numpy reports IEEE exception flags (overflow, invalid, divide by zero; since 1.24 also "invalid value encountered in cast",
i.e. a float -> integer conversion whose result is undefined in C) through np.seterr.  With mode 'call' every raised flag
invokes a handler; the handler attributes the event to the innermost frame that belongs to the library under test and
records (kind, file:function).  Events raised by the harness itself or by third-party code are ignored.  The monitor
only records: what an event MEANS is decided by the property modules that read EVENTS (C17 treats an undefined
float -> integer cast inside the quantization arithmetic as a violation only when it reaches the result).
"""
import collections
import sys
import numpy as np

EVENTS = collections.Counter()      # (kind, 'file.py:function') -> n
LAST = []                           # last few events with line numbers
_installed = False


def _handler(kind, flag):
  f = sys._getframe(1)  # pylint: disable=protected-access
  while f is not None:
    fn = f.f_code.co_filename
    if '/ai_edge_quantizer/' in fn and '/vf/' not in fn:
      site = fn.split('/ai_edge_quantizer/')[-1] + ':' + f.f_code.co_name
      EVENTS[(kind, site)] += 1
      if len(LAST) < 50:
        LAST.append((kind, site, f.f_lineno))
      return
    f = f.f_back


def install():
  global _installed
  if _installed:
    return
  np.seterrcall(_handler)
  np.seterr(all='call')
  _installed = True


def drain():
  out = dict(EVENTS)
  EVENTS.clear()
  del LAST[:]
  return out
