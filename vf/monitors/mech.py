"""Mechanism monitors: cheap hooks used for attribution and reach evidence (never the sole source of a verdict
unless the property names the mechanism itself, as C15's "quantized exactly once" does).
If a hooked attribute does not exist (refactored tree) the monitor disables itself and says so."""
import hashlib
import numpy as np

BUFFER_WRITES = {}      # buffer index -> set of content digests, for the current quantize() call
ENABLED = {'buffer_writes': False}


def install_buffer_write_monitor():
  try:
    from ai_edge_quantizer.transformations import quantize_tensor as qt_mod
  except Exception:  # pylint: disable=broad-except
    return False
  orig = getattr(qt_mod, 'quantize_tensor', None)
  if orig is None or ENABLED['buffer_writes']:
    return ENABLED['buffer_writes']

  def spy(transformation_input):
    res = orig(transformation_input)
    try:
      t = transformation_input.subgraph.tensors[transformation_input.tensor_id]
      qd = getattr(transformation_input.quant_params, 'quantized_data', None)
      if t.buffer and qd is not None:
        data = transformation_input.buffers[t.buffer].data
        h = hashlib.sha256(np.asarray(data).tobytes()).hexdigest()[:16] if data is not None else 'none'
        BUFFER_WRITES.setdefault(int(t.buffer), []).append(h)
    except Exception:  # pylint: disable=broad-except
      pass
    return res
  qt_mod.quantize_tensor = spy
  ENABLED['buffer_writes'] = True
  return True


def reset_buffer_writes():
  BUFFER_WRITES.clear()
