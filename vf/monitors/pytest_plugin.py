"""pytest plugin: runs the repository's own tests with the arithmetic contracts attached and dumps what they observed.
usage:  cd <repo> && PYTHONPATH=<repo>:/verif VF_CONTRACT_DUMP=<file> pytest -p vf.monitors.pytest_plugin ..."""
import json
import os
from vf.monitors import contracts


def pytest_configure(config):
  config._vf_hooked = contracts.install()


def pytest_sessionfinish(session, exitstatus):
  path = os.environ.get('VF_CONTRACT_DUMP')
  if not path:
    return
  fails = [{'contract': c, 'kind': k, 'features': f, 'detail': d} for c, k, f, d in contracts.FAILURES]
  with open(path, 'w') as f:
    json.dump({'backend': contracts.BACKEND, 'hooked': getattr(session.config, '_vf_hooked', []), 'evals': dict(contracts.EVALS),
               'failures': fails}, f, default=str)
