"""Resolution trace (C10): RecipeManager.get_quantization_configs is wrapped from the harness to
record (phase, operator, scope, algorithm); phase is set by wrappers around the public
Quantizer.calibrate / Quantizer.quantize.  If the hooked attribute does not exist (refactored
tree) the monitor disables itself and says so."""
from ai_edge_quantizer import quantizer as aeq, recipe_manager

TRACE = []
PHASE = [None]
CURRENT_OP = [None]
ENABLED = False
OP_IDENTITY = [False]


def install():
  global ENABLED
  if ENABLED:
    return True
  rm = getattr(recipe_manager, 'RecipeManager', None)
  orig = getattr(rm, 'get_quantization_configs', None) if rm else None
  if orig is None:
    return False

  def spy(self, op, scope):
    r = orig(self, op, scope)
    if PHASE[0] is not None:
      alg = r[0]
      TRACE.append((PHASE[0], str(getattr(op, 'value', op)), scope, str(getattr(alg, 'value', alg)), CURRENT_OP[0]))
      CURRENT_OP[0] = None
    return r
  rm.get_quantization_configs = spy
  # operator identity: both phases compute the scope right before resolving; remember which operator it was for
  from ai_edge_quantizer import calibrator, params_generator
  hooked = 0
  for cls in (getattr(calibrator, 'Calibrator', None), getattr(params_generator, 'ParamsGenerator', None)):
    f = getattr(cls, '_get_op_scope', None) if cls else None
    if f is None:
      continue

    def mk2(f):
      def w(self, op, subgraph_tensors):
        try:
          sg_id = subgraph_tensors[0].name if len(subgraph_tensors) else b''
          CURRENT_OP[0] = (bytes(sg_id).decode('utf8', 'replace'), tuple(int(o) for o in op.outputs))
        except Exception:  # pylint: disable=broad-except
          CURRENT_OP[0] = None
        return f(self, op, subgraph_tensors)
      return w
    setattr(cls, '_get_op_scope', mk2(f))
    hooked += 1
  OP_IDENTITY[0] = hooked == 2
  for name in ('calibrate', 'quantize'):
    f = getattr(aeq.Quantizer, name)

    def mk(name, f):
      def w(self, *a, **k):
        PHASE[0] = name
        try:
          return f(self, *a, **k)
        finally:
          PHASE[0] = None
      return w
    setattr(aeq.Quantizer, name, mk(name, f))
  ENABLED = True
  return True
