"""Resolution trace (C10): RecipeManager.get_quantization_configs is wrapped from the harness to
record (phase, operator, scope, algorithm); phase is set by wrappers around the public
Quantizer.calibrate / Quantizer.quantize.  If the hooked attribute does not exist (refactored
tree) the monitor disables itself and says so."""
from ai_edge_quantizer import quantizer as aeq, recipe_manager

TRACE = []
PHASE = [None]
ENABLED = False


def install():
  global ENABLED
  if ENABLED:
    return True
  rm = getattr(recipe_manager, 'RecipeManager', None)
  orig = getattr(rm, 'get_quantization_configs', None) if rm else None
  if orig is None:
    return False

  def spy(self, op, scope):
    r = orig(self, op, scope)
    if PHASE[0] is not None:
      alg = r[0]
      TRACE.append((PHASE[0], str(getattr(op, 'value', op)), scope, str(getattr(alg, 'value', alg))))
    return r
  rm.get_quantization_configs = spy
  for name in ('calibrate', 'quantize'):
    f = getattr(aeq.Quantizer, name)

    def mk(name, f):
      def w(self, *a, **k):
        PHASE[0] = name
        try:
          return f(self, *a, **k)
        finally:
          PHASE[0] = None
      return w
    setattr(aeq.Quantizer, name, mk(name, f))
  ENABLED = True
  return True
