"""C08 -- shipped default recipes quantize every supported-op graph without rejection."""
from vf.gen import models, recipes
from vf.props import common

LEVEL = 'exploration'
RULE = ('every shipped recipe (5 files + recipe.dynamic_wi8_afp32()) loaded unchanged x random DAG / template '
        'float models (1-3 signatures, fan-out and cross-signature weight-tying templates included) admitted by the float interpreter x calibration data; a unit is one '
        '(model, recipe) execution; distinct by (graph structure, recipe name); non-trivial iff the model has '
        '>=2 operators and >=1 operator of the README coverage table')
ASSUMPTIONS = ['only models the float interpreter accepts and whose tensor names are unique are used',
               'every signature is calibrated in turn, chained through previous_calibration_result']


def plan(tier):
  return {'n_cases': 500 if tier == 'quick' else 12000, 'shards': 16}


def run_case(ctx, case, rng):
  r = rng.random()
  directed = {1: models.t_shared_const_tensor, 2: models.t_shared_buffer, 3: models.t_repeated_operand,
              4: models.t_output_also_consumed, 5: models.t_producer_zero_float_out}
  if case % 50 in directed:
    spec = directed[case % 50](rng)          # every topology class the summary requires is generated deterministically
  elif r < 0.08:
    spec, _ = models.t_fanout(rng)
  elif r < 0.14:
    spec = models.t_shared_buffer_across(rng, int(rng.integers(2, 4)))
  else:
    spec = models.model_for_case(rng, multi_sub_p=0.15)
  datasets = common.make_data(rng, spec, classes=common.DATA_MIX[int(rng.integers(len(common.DATA_MIX)))])
  ok, why = common.admit(spec, datasets)
  if not ok:
    ctx.count('generator_reject')
    return {'outcome': 'skipped', 'reason': 'generator_reject'}
  src = models.read(spec.content)
  for c in spec.classes:
    ctx.count('class:' + c)
  n_ops = sum(len(sg.operators) for sg in src.subgraphs)
  n_sup = sum(1 for sg in src.subgraphs for op in sg.operators
              if src.operatorCodes[op.opcodeIndex].builtinCode in models.SUPPORTED_CODES)
  ctx.count('subgraphs:%d' % len(src.subgraphs))
  for name, rec in common.shipped_list():
    run = common.pipeline(spec, datasets, recipe=rec)
    ctx.unit(common.model_key(spec, name), nontrivial=(n_ops >= 2 and n_sup >= 1))
    if run.exc is not None:
      sig = common.exc_signature(run.exc)
      ctx.count('raised:' + name)
      ctx.violation('rejected', {'exc': sig, 'phase': run.phase, 'control_flow_subgraphs': 'control_flow' in spec.classes,
                                 'tied_bias': 'tied_bias' in spec.classes},
                    {'recipe': name, 'ops': common.describe_model(spec.content, src),
                     'classes': sorted(spec.classes), 'message': str(run.exc)[:300]})
    else:
      ctx.count('returned:' + name)
  if ctx.sample is None:
    ctx.sample = {'ops': common.describe_model(spec.content, src), 'classes': sorted(spec.classes),
                  'recipes': [n for n, _ in common.shipped_list()]}
  return {}


def summarize(agg):
  st = agg['stats']
  inc = []
  for c in ('multi_consumer', 'output_also_consumed', 'repeated_operand', 'unsupported_op',
            'shared_const_tensor', 'shared_buffer'):
    if st.get('class:' + c, 0) == 0:
      inc.append(f'topology class {c} was never generated')
  return {'inconclusive': inc}
