"""C19 -- each subgraph of a multi-signature model is transformed as if it stood alone."""
import copy
import numpy as np
from ai_edge_quantizer import quantizer as aeq
from vf.gen import models, recipes, data as gdata
from vf.oracle import decode
from vf.props import common

LEVEL = 'translation_validation'
RULE = ('merged models of 2-3 subgraphs: independent random DAGs, subgraphs of equal structure with different names, subgraphs sharing a '
        'constant buffer; recipes: shipped and random rule sets incl. name-targeted rules that hit one subgraph only.  Statistics are '
        'obtained per extracted stand-alone subgraph and merged by dict union; subgraph i of quantize(merged) is compared with subgraph 0 '
        'of quantize(extract(merged, i)) on operators (builtin code, wiring), tensors (name, dtype, shape, parameters), constant bytes, '
        'inputs/outputs, signature.  A unit is one subgraph comparison; distinct by (graph structure, recipe, subgraph index); non-trivial '
        'iff QUANTIZE/DEQUANTIZE operators were inserted in that subgraph or a constant was rewritten')
ASSUMPTIONS = ['when subgraphs share a constant buffer, the merged model may raise the shared-buffer RuntimeError while the stand-alone ones return (C15 rule)']


def plan(tier):
  return {'n_cases': 420 if tier == 'quick' else 24000, 'shards': 16}


def equal_structure_model(rng, n_sub):
  b = models.B()
  graphs = []
  sub_seed = int(rng.integers(1 << 30))
  n_ops = int(rng.integers(2, 8))
  for i in range(n_sub):
    r = np.random.default_rng(sub_seed)
    g = models.G(b, f'sub{i}', f's{i}/', r)
    outs = models.rand_graph(g, r, n_ops=n_ops)
    g.finish(outs, f'sig{i}')
    graphs.append(g)
  return models._spec(b, graphs, 'equal_structure')


def sg_view(model, i):
  sg = model.subgraphs[i]
  oc = model.operatorCodes
  tv = []
  for t in sg.tensors:
    qp = decode.qparams(t)
    qs = None if qp is None else (qp[0].tolist(), qp[1].tolist(), qp[2] if qp[0].size > 1 else 0)
    tv.append((t.name, t.type, decode.shape_of(t), qs, decode.raw(model.buffers[t.buffer]) if 0 <= t.buffer < len(model.buffers) else None,
               bool(t.isVariable)))
  ov = [(oc[o.opcodeIndex].builtinCode, tuple(int(x) for x in o.inputs), tuple(int(x) for x in o.outputs)) for o in sg.operators]
  return {'tensors': tv, 'operators': ov, 'inputs': tuple(int(x) for x in sg.inputs), 'outputs': tuple(int(x) for x in sg.outputs)}


def sig_view(model, si):
  for s in model.signatureDefs or []:
    if s.subgraphIndex == si:
      return (s.signatureKey, tuple((t.name, t.tensorIndex) for t in s.inputs), tuple((t.name, t.tensorIndex) for t in s.outputs))
  return None


def first_diff(a, b):
  for k in ('operators', 'inputs', 'outputs'):
    if a[k] != b[k]:
      return k, str(a[k])[:300], str(b[k])[:300]
  if len(a['tensors']) != len(b['tensors']):
    return 'tensor_count', len(a['tensors']), len(b['tensors'])
  for i, (x, y) in enumerate(zip(a['tensors'], b['tensors'])):
    for j, f in enumerate(('name', 'dtype', 'shape', 'parameters', 'constant_bytes', 'variable')):
      if x[j] != y[j]:
        return 'tensor_' + f, f'{x[0]}: {str(x[j])[:120]}', f'{y[0]}: {str(y[j])[:120]}'
  return None


def run_case(ctx, case, rng):
  n_sub = int(rng.integers(2, 4))
  r = rng.random()
  if r < 0.55:
    spec = models.rand_model(rng, n_sub=n_sub)
    kind = 'independent'
  elif r < 0.8:
    spec = equal_structure_model(rng, n_sub)
    kind = 'equal_structure'
  else:
    spec = models.t_shared_buffer_across(rng, n_sub)
    kind = 'shared_buffer'
  datasets = common.make_data(rng, spec)
  ok, _ = common.admit(spec, datasets)
  if not ok:
    return {'outcome': 'skipped', 'reason': 'generator_reject'}
  src = models.read(spec.content)
  ctx.count('kind:' + kind)
  if rng.random() < 0.35:
    name = list(recipes.SHIPPED)[int(rng.integers(len(recipes.SHIPPED)))]
    rules = recipes.SHIPPED_AS_RULES[name]
  else:
    rules = recipes.random_rules(rng, src, safe_regex=True, star_p=0.5)
  singles = [models.single_signature_spec(spec, i) for i in range(len(spec.signatures))]
  stats = {}
  outs = []
  acc = None
  for i, sp in enumerate(singles):
    qt = aeq.Quantizer(sp.content)
    acc = recipes.apply_rules(qt, rules)
    if not acc:
      return {'outcome': 'skipped', 'reason': 'no_rule_accepted'}
    try:
      cal = qt.calibrate(datasets[sp.signatures[0]['key']]) if qt.need_calibration else None
      if cal:
        stats.update(copy.deepcopy(cal))
      outs.append(('ok', bytes(qt.quantize(cal).quantized_model)))
    except Exception as e:  # pylint: disable=broad-except
      outs.append(('exc', e))
  qt = aeq.Quantizer(spec.content)
  recipes.apply_rules(qt, rules)
  try:
    merged = ('ok', bytes(qt.quantize(copy.deepcopy(stats) if qt.need_calibration else None).quantized_model))
  except Exception as e:  # pylint: disable=broad-except
    merged = ('exc', e)
  base = {'rules': acc, 'ops': common.describe_model(spec.content, src), 'kind': kind}
  single_fail = [o for o in outs if o[0] == 'exc']
  if merged[0] == 'exc' or single_fail:
    if merged[0] == 'exc' and single_fail:
      ctx.count('both_sides_raised')
      return {'outcome': 'skipped', 'reason': 'both_sides_raised'}
    msg = str(merged[1]) if merged[0] == 'exc' else str(single_fail[0][1])
    if kind == 'shared_buffer' and merged[0] == 'exc' and 'share the same buffer' in msg:
      ctx.count('shared_buffer_rejected_in_merged_model')
      return {'outcome': 'skipped', 'reason': 'shared_buffer_rule'}
    ctx.violation('one_side_raised', {'merged_raised': merged[0] == 'exc', 'kind': kind, 'exc': common.exc_signature(merged[1] if merged[0] == 'exc' else single_fail[0][1])[:80]},
                  dict(base, message=msg[:300]))
    return {}
  mo = models.read(merged[1])
  if len(mo.subgraphs) != len(singles):
    ctx.violation('subgraph_count', {}, base)
    return {}
  for k, sp in enumerate(singles):
    i = spec.signatures[k]['subgraph']     # signature order need not be subgraph order
    so = models.read(outs[k][1])
    a, b = sg_view(mo, i), sg_view(so, 0)
    ctx.count('comparisons')
    n_ins = len(a['operators']) - len(src.subgraphs[i].operators)
    rewritten = sum(1 for x, t in zip(a['tensors'], src.subgraphs[i].tensors) if x[1] != t.type)
    ctx.unit(common.model_key(spec, [acc, i]), n_ins > 0 or rewritten > 0)
    ctx.count('inserted_ops', max(n_ins, 0))
    d = first_diff(a, b)
    if d is not None:
      ctx.violation('subgraph_differs_from_standalone', {'what': d[0], 'kind': kind}, dict(base, subgraph=i, merged=d[1], standalone=d[2]))
    sa, sb = sig_view(mo, i), sig_view(so, 0)
    if sa != sb:
      ctx.violation('signature_differs_from_standalone', {'kind': kind}, dict(base, subgraph=i, merged=str(sa), standalone=str(sb)))
  if ctx.sample is None:
    ctx.sample = dict(base, subgraphs=len(singles))
  return {}


def summarize(agg):
  st = agg['stats']
  inc = []
  for k in ('comparisons', 'inserted_ops', 'kind:independent', 'kind:equal_structure', 'kind:shared_buffer'):
    if st.get(k, 0) == 0:
      inc.append(f'{k} is zero')
  return {'inconclusive': inc, 'coverage': {'programs': int(st.get('comparisons', 0)), 'disagreements_checked': int(st.get('comparisons', 0))}}
