"""C14 -- quantize/calibrate/validate are pure: no input mutation, no history dependence."""
import copy
import hashlib
import json
import os
import pickle
import subprocess
import sys
import numpy as np
from ai_edge_quantizer import quantizer as aeq, qtyping
from vf.gen import models, recipes, data as gdata
from vf.props import common
from vf.run import driver

LEVEL = 'exploration'
OP = qtyping.TFLOperationName
RULE = ('a case is one random history (3-12 steps) of update/load recipe, calibrate (optionally resumed from a shared '
        'previous result), quantize, validate on one or two Quantizer objects sharing calibration-result objects; '
        'recipes are drawn around one static-range config (full model, one operator type, one regex) plus float-compute '
        'configs so that "quantize with A, then B, same statistics object" occurs in most histories.  Every caller-owned '
        'argument is digested before and after each API call; every quantize() observed is re-computed from equal '
        'arguments by fresh Quantizer objects in 4 fresh processes (PYTHONHASHSEED 0,1,2,random; two orders).  '
        'distinct by (model structure, step list); non-trivial iff >=2 quantize() calls shared one statistics object')
ASSUMPTIONS = ['load_config_policy (documented global) is not part of the histories',
               '16-bit activations excluded from histories (their interpreter aborts are C01/C13 findings)']

SRQ8 = ['srq8a_cw', 'srq8a_tw', 'srq8s_cw']
FLOATS = ['drq8_cw', 'wo8a_cw', 'wo4s_cw', 'fp16', 'noq']
TRIPLES = []


def plan(tier):
  return {'n_cases': 320 if tier == 'quick' else 12800, 'shards': 16}


def recipe_pool(rng, src):
  master = str(rng.choice(SRQ8))
  ops = recipes.op_names_in(src) or ['FULLY_CONNECTED']
  names = recipes.output_names(src)
  pool = [[('.*', '*', master)]]
  for _ in range(3):
    r = rng.random()
    if r < 0.45:
      pool.append([('.*', str(rng.choice(ops)), master)])
    elif r < 0.7:
      rx, _ = recipes.regex_family(rng, names, safe_only=True)
      pool.append([(rx, '*', master)])
    elif r < 0.85:
      pool.append([('.*', '*', master), ('.*', str(rng.choice(ops)), 'noq')])
    else:
      pool.append([('.*', '*', str(rng.choice(FLOATS)))])
  return pool


def needs_statistics(q):
  """Reference for 'this recipe needs calibration': some exported rule is static-range (integer compute + activation config).
  Deliberately NOT the library's own need_calibration property, whose answer is part of what is being observed."""
  rec = recipes.json_recipe(q.get_quantization_recipe())
  return any(e['op_config'].get('compute_precision') == 'INTEGER' and 'activation_tensor_config' in e['op_config'] for e in rec)


def rules_to_json(rules):
  out = []
  for rx, sel, name in rules:
    alg, cfg = recipes.CFGS[name]
    out.append({'regex': rx, 'operation': sel, 'algorithm_key': alg,
                'op_config': (cfg or qtyping.OpQuantizationConfig()).to_dict()})
  return json.loads(json.dumps(out))


def _dg(v):
  """Digest of a caller-owned object; a model given as a FILE PATH is owned through the file's contents."""
  if isinstance(v, str) and os.path.isfile(v):
    with open(v, 'rb') as f:
      return common.digest([v, f.read()])
  return common.digest(v)


_TMP = []


class Watch:
  """Digest of caller-owned objects around one API call."""

  def __init__(self, ctx, api, **owned):
    self.ctx, self.api, self.owned = ctx, api, owned
    self.before = {k: _dg(v) for k, v in owned.items()}

  def __enter__(self):
    return self

  def __exit__(self, *exc):
    self.ctx.count('api:' + self.api)
    for k, v in self.owned.items():
      self.ctx.count('digests')
      if _dg(v) != self.before[k]:
        self.ctx.violation('caller_object_mutated', {'api': self.api, 'object': k}, {'steps': self.ctx.steps})
    return False


def run_case(ctx, case, rng):
  try:
    return _run_case(ctx, case, rng)
  finally:
    while _TMP:
      try:
        os.remove(_TMP.pop())
      except OSError:
        pass


def _run_case(ctx, case, rng):
  fan = None
  if rng.random() < 0.2:
    # one tensor read by 3-5 operators, each with its own name-targeted static config: several QUANTIZE operators
    # (and colliding tensor names) are inserted on the same tensor -- state kept between calls would show here
    spec, fan = models.t_fanout(rng)
    ctx.count('fanout_models')
  else:
    spec = models.model_for_case(rng, multi_sub_p=0.0, template_p=0.25, allow_emb=True, alias_p=0.0)
  sig = spec.signatures[0]
  data = gdata.dataset(rng, sig, n=2)
  ok, _ = common.admit(spec, {sig['key']: data})
  if not ok:
    return {'outcome': 'skipped', 'reason': 'generator_reject'}
  src = models.read(spec.content)
  pool = recipe_pool(rng, src)
  if fan:
    import re
    stat = ['srq8a_cw', 'srq8s_cw', 'srq16_cw', 'srq8a_tw', 'srq16_tw']
    def ok(sel, name):
      return recipes.declared_supported(recipes.CFGS[name][0], sel, recipes.CFGS[name][1])
    for i in range(len(pool)):
      rr = [('.*', '*', str(rng.choice(SRQ8)))]
      for sel, out_name in fan:
        cand = [n for n in stat if ok(sel, n)]
        if cand and rng.random() < 0.9:
          rr.append((re.escape(out_name), sel, str(rng.choice(cand))))
      pool[i] = rr
  # the API accepts a (mutable) bytearray: use one in half of the histories so that an in-place edit would be observable
  model = bytearray(spec.content) if rng.random() < 0.5 else bytes(spec.content)
  if rng.random() < 0.15:
    # ... and a path: the third form the constructor accepts; the file is caller-owned too
    import tempfile
    fd, path = tempfile.mkstemp(suffix='.tflite')
    with os.fdopen(fd, 'wb') as f:
      f.write(spec.content)
    _TMP.append(path)
    model = path
    ctx.count('model_given_as_path')
  qs = [aeq.Quantizer(model), aeq.Quantizer(model)] if rng.random() < 0.6 else [aeq.Quantizer(model)]
  cur = [None] * len(qs)       # recipe JSON currently loaded per quantizer
  cals = []                    # shared statistics objects
  pristine = []                # deep copies taken when calibrate() returned (the caller never edits them)
  quantized = [False] * len(qs)
  last_out = {}
  ctx.steps = []
  shared_use = {}
  n_steps = int(rng.integers(3, 13))
  # make sure the interesting pattern occurs: load full recipe, calibrate
  script = [('load', 0, 0), ('calibrate', 0)]
  for _ in range(n_steps):
    qi = int(rng.integers(len(qs)))
    r = rng.random()
    if r < 0.3:
      script.append(('load', qi, int(rng.integers(len(pool)))))
    elif r < 0.4:
      script.append(('update', qi, int(rng.integers(1, len(pool)))))
    elif r < 0.55:
      script.append(('calibrate', qi))
    elif r < 0.85:
      script.append(('quantize', qi))
    elif r < 0.92:
      script.append(('edit_statistics', qi))
      script.append(('quantize', qi))
    else:
      script.append(('validate', qi))
  for step in script:
    kind, qi = step[0], step[1]
    q = qs[qi]
    try:
      if kind == 'load':
        rec = rules_to_json(pool[step[2]])
        with Watch(ctx, 'load_quantization_recipe', model=model, recipe=rec):
          q.load_quantization_recipe(rec)
        ctx.steps.append(['load', qi, pool[step[2]]])
      elif kind == 'update':
        rx, sel, name = pool[step[2]][-1]
        alg, cfg = recipes.CFGS[name]
        with Watch(ctx, 'update_quantization_recipe', model=model):
          q.update_quantization_recipe(rx, OP(sel), cfg, alg)
        ctx.steps.append(['update', qi, [rx, sel, name]])
      elif kind == 'edit_statistics':
        # the CALLER edits a calibration result it owns, in place (widening one tensor's range by hand is the documented way to
        # tune a model); from now on that object HAS the new value, and quantize() must follow it
        if not cals:
          continue
        ci_e = int(rng.integers(len(cals)))
        keys_e = sorted(cals[ci_e].keys())
        if not keys_e:
          continue
        k_e = keys_e[int(rng.integers(len(keys_e)))]
        ent = cals[ci_e][k_e]
        if isinstance(ent, dict) and 'min' in ent and 'max' in ent:
          ent['min'] = np.asarray(ent['min']) * np.float32(1.5) - np.float32(0.25)
          ent['max'] = np.asarray(ent['max']) * np.float32(1.5) + np.float32(0.25)
          pristine[ci_e] = copy.deepcopy(cals[ci_e])
          ctx.count('statistics_edited_in_place_by_the_caller')
          ctx.steps.append(['edit_statistics', ci_e, k_e])
      elif kind == 'calibrate':
        if not q.get_quantization_recipe() or not needs_statistics(q):
          continue
        prev = cals[int(rng.integers(len(cals)))] if cals and rng.random() < 0.4 else None
        with Watch(ctx, 'calibrate', model=model, data=data, previous=prev):
          res = q.calibrate(data, previous_calibration_result=prev)
        cals.append(res)
        pristine.append(copy.deepcopy(res))
        ctx.steps.append(['calibrate', qi, 'resumed' if prev is not None else 'fresh'])
      elif kind == 'quantize':
        if not q.get_quantization_recipe():
          continue
        if needs_statistics(q):
          if not cals:
            continue
          ci = int(rng.integers(len(cals)))
          cal = cals[ci]
        else:
          ci, cal = None, None
        rec_js = recipes.json_recipe(q.get_quantization_recipe())
        snap = pristine[ci] if ci is not None else None
        with Watch(ctx, 'quantize', model=model, calibration_result=cal, data=data):
          try:
            out = q.quantize(cal)
            sha = hashlib.sha256(bytes(out.quantized_model)).hexdigest()
            last_out[qi] = (bytes(out.quantized_model), rec_js)
            quantized[qi] = True
          except Exception as e:  # pylint: disable=broad-except
            sha = 'EXC:' + type(e).__name__
        TRIPLES.append({'case': case, 'model': bytes(spec.content), 'recipe': rec_js, 'cal': snap, 'sha': sha,
                        'steps': list(ctx.steps) + [['quantize', qi, ci]]})
        ctx.count('quantize_calls')
        if ci is not None:
          shared_use[ci] = shared_use.get(ci, 0) + 1
        ctx.steps.append(['quantize', qi, ci, sha[:12]])
      elif kind == 'validate':
        if not quantized[qi]:
          continue
        test = {sig['key']: data}
        def go():
          with Watch(ctx, 'validate', model=model, test_data=test, data=data):
            try:
              q.validate(test, 'mse' if rng.random() < 0.5 else 'median_diff_ratio')
            except Exception:  # pylint: disable=broad-except
              ctx.count('validate_raised')
        # an interpreter abort on the returned model is not a purity matter: it is attributed (gdb) and matched against the
        # known findings exactly as in C01
        info = {'steps': ctx.steps}
        try:
          from vf.run import abortinfo
          from vf.props import c01
          info['census'] = c01.int16_census(models.read(last_out[qi][0]))
          info['recipe'] = last_out[qi][1]
          info['ops'] = common.describe_model(spec.content)
          info['model_path'], info['feeds_path'] = abortinfo.save(os.path.join(driver.ROOT, '.work', 'risky'), last_out[qi][0],
                                                                  {sig['key']: data[0]})
        except Exception:  # pylint: disable=broad-except
          pass
        ctx.risky('interp.validate', go, info)
        ctx.steps.append(['validate', qi])
    except Exception as e:  # pylint: disable=broad-except
      ctx.count('api_raised:' + kind)
      ctx.steps.append([kind, qi, 'raised ' + type(e).__name__])
  ctx.key = common.model_key(spec, ctx.steps)
  ctx.nontrivial = any(v >= 2 for v in shared_use.values())
  if ctx.nontrivial:
    ctx.count('histories_reusing_statistics_object')
  ctx.sample = {'ops': common.describe_model(spec.content, src), 'steps': ctx.steps}
  return {}


def teardown(ctx):
  """Fresh-process references for every quantize() observed in this shard."""
  if not TRIPLES:
    return
  wd = os.path.join(driver.ROOT, '.work', f'c14_{os.getpid()}')
  os.makedirs(wd, exist_ok=True)
  path = os.path.join(wd, 'triples.pkl')
  with open(path, 'wb') as f:
    pickle.dump(TRIPLES, f)
  runs = [('0', 'fwd'), ('1', 'rev'), ('2', 'fwd'), ('random', 'rev')]
  if ctx.tier == 'quick':
    runs = runs[:2] + runs[3:]
  results = []
  for hs, order in runs:
    env = driver.child_env({'PYTHONHASHSEED': hs})
    env.pop(driver.GUARD, None)
    p = subprocess.run([driver.PY, os.path.join(driver.ROOT, 'vf', 'run', 'c14_ref.py'), path, order],
                       env=env, capture_output=True, text=True, timeout=3600)
    got = {}
    for line in p.stdout.splitlines():
      try:
        d = json.loads(line)
        got[d['i']] = d['sha']
      except json.JSONDecodeError:
        pass
    results.append((hs, order, got, p.returncode))
  for i, t in enumerate(TRIPLES):
    ctx.case = t['case']
    refs = {}
    for hs, order, got, rc in results:
      if i in got:
        refs[f'hashseed={hs},{order}'] = got[i]
    if len(refs) < len(results):
      ctx.count('reference_missing')
      continue
    ctx.count('triples_compared')
    if len(set(refs.values())) != 1:
      ctx.violation('fresh_process_references_disagree', {}, {'refs': refs, 'steps': t['steps']})
      continue
    ref = next(iter(refs.values()))
    if t['sha'] != ref:
      n_prior = sum(1 for s in t['steps'][:-1] if s[0] == 'quantize')
      ctx.violation('history_dependent_output',
                    {'prior_quantize_calls_on_statistics': n_prior > 0, 'observed_exc': t['sha'].startswith('EXC'),
                     'reference_exc': ref.startswith('EXC')},
                    {'observed': t['sha'][:16], 'reference': ref[:16], 'steps': t['steps'], 'recipe': t['recipe']})
  import shutil
  shutil.rmtree(wd, ignore_errors=True)
  ctx.emit({'ev': 'case', 'case': -1, 'outcome': 'meta', 'stats': dict(ctx.stats), 'n_violations': 0, 'max': {},
            'sample': None, 'key': None, 'nontrivial': False, 'units': [], 'reason': None})


def summarize(agg):
  st = agg['stats']
  inc = []
  if st.get('triples_compared', 0) == 0:
    inc.append('no quantize() output was compared with a fresh-process reference')
  if st.get('reference_missing', 0):
    inc.append(f"{st['reference_missing']} fresh-process references missing")
  if st.get('histories_reusing_statistics_object', 0) == 0:
    inc.append('no history reused a statistics object across quantize() calls')
  for api in ('calibrate', 'quantize', 'validate', 'load_quantization_recipe'):
    if st.get('api:' + api, 0) == 0:
      inc.append(f'{api} was never observed')
  return {'inconclusive': inc}


from vf.props import c01 as _c01  # pylint: disable=g-import-not-at-top
crash_to_violation = _c01.crash_to_violation
