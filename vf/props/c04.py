"""C04 -- quantization parameters equal the TFLite-spec reference for the stats and config."""
import copy
import numpy as np
from vf.gen import models, recipes
from vf.oracle import skeleton, resolve, decode, qparams
from vf.props import common, c03

LEVEL = 'exploration'
RULE = ('static-range and mixed recipes (8/16-bit, symmetric/asymmetric activations, tensor-/channel-wise 4/8-bit weights, plus '
        'dynamic/weight-only rules) on generated graphs with calibration data classes incl. constant, one-signed, 1e-6 and 1e6 '
        'magnitudes.  Every quantized tensor of the output gets the generic checks; every operand of every quantized operator is '
        're-derived locally from the statistics returned by calibrate() (activations) or the true min/max of the source constant '
        '(weights) with float64 reference formulas, and the op-level rules (bias, same-as-input, concatenation, fixed ranges, weight '
        'axis) are checked on the tensors actually attached.  A unit is one (operator, operand); distinct by (operator type, operand '
        'rule, tensor name, model, recipe); non-trivial iff the operand is quantized')
ASSUMPTIONS = ['the dict returned by calibrate() is taken as the statistics (C09 decides that it is right)',
               'tolerance: scale rel 1e-5; zero point exact unless the unrounded reference is within a float32 band of a tie, then +-1',
               'consumer side of a tensor produced by a same-scale / fixed-range operator: either the reference of its own statistics '
               'or of the producer-imposed range is accepted (both satisfy the spec)']
TT = models.TT
SAME_IN = {'RESHAPE': 0, 'TRANSPOSE': 0, 'SPLIT': 1, 'STRIDED_SLICE': 0, 'AVERAGE_POOL_2D': 0}
FIXED = {'SOFTMAX': {8: (1.0 / 256, -128), 16: (1.0 / 32768, 0)}, 'LOGISTIC': {8: (1.0 / 256, -128), 16: (1.0 / 32768, 0)},
         'TANH': {8: (1.0 / 128, 0), 16: (1.0 / 32768, 0)}}
INT_RANGE = {TT.INT4: (-8, 7), TT.INT8: (-128, 127), TT.INT16: (-32768, 32767), TT.INT32: (-2 ** 31, 2 ** 31 - 1),
             TT.INT64: (-2 ** 63, 2 ** 63 - 1)}
IN_POS = {'FULLY_CONNECTED': 0, 'CONV_2D': 0, 'DEPTHWISE_CONV_2D': 0, 'CONV_2D_TRANSPOSE': 2}
W_POS = {'FULLY_CONNECTED': 1, 'CONV_2D': 1, 'DEPTHWISE_CONV_2D': 1, 'CONV_2D_TRANSPOSE': 1, 'BATCH_MATMUL': 1,
         'EMBEDDING_LOOKUP': 1}


def plan(tier):
  return {'n_cases': 1000 if tier == 'quick' else 20000, 'shards': 16}


def generic(ctx, mo, base):
  """Checks every quantized tensor of the output model."""
  for si, sg in enumerate(mo.subgraphs):
    for ti, t in enumerate(sg.tensors):
      qp = decode.qparams(t)
      if qp is None:
        continue
      sc, zp, axis = qp
      ctx.count('quantized_tensors')
      f = {'dtype': decode.TYPE_NAME.get(t.type)}
      d = dict(base, tensor=t.name.decode(), subgraph=si)
      if not (np.all(np.isfinite(sc)) and np.all(sc > 0)):
        ctx.violation('scale_not_finite_positive', f, dict(d, scale=sc[:4].tolist()))
      if zp.size != sc.size:
        ctx.violation('scale_zero_point_length_mismatch', f, dict(d, n_scale=int(sc.size), n_zp=int(zp.size)))
        continue
      if t.type in INT_RANGE:
        lo, hi = INT_RANGE[t.type]
        if np.any(zp < lo) or np.any(zp > hi):
          ctx.violation('zero_point_out_of_range', f, dict(d, zp=zp[:4].tolist()))
      else:
        ctx.violation('parameters_on_non_integer_tensor', f, d)
      shape = decode.shape_of(t)
      if sc.size > 1 and (axis >= len(shape) or shape[axis] != sc.size):
        ctx.violation('per_axis_length_not_dimension', dict(f, axis=axis), dict(d, shape=list(shape), n=int(sc.size)))


def check_pair(ctx, spec, src, run, acc):
  errs, maps, ms, mo = skeleton.analyse(spec.content, run.out, ms=src)
  if [e for e in errs if not e[0].startswith('sig_')] or maps is None or any(m is None for m in maps):
    ctx.count('skeleton_broken_left_to_C02')
    return
  S = run.cal or {}
  ref = recipes.reference_for(acc)
  base = {'rules': acc, 'ops': common.describe_model(spec.content, src)}
  generic(ctx, mo, base)
  per_axis_allowed = set()
  for si, (a, b) in enumerate(zip(ms.subgraphs, mo.subgraphs)):
    mp = maps[si]
    producer_of = {int(o): op for op in b.operators for o in op.outputs}
    name = lambda t: a.tensors[int(t)].name.decode()
    is_const = lambda t: ms.buffers[a.tensors[t].buffer].data is not None and len(ms.buffers[a.tensors[t].buffer].data) > 0
    stat = lambda t: (S[name(t)]['min'], S[name(t)]['max']) if name(t) in S and S[name(t)] and 'min' in S[name(t)] else None
    resolved = []
    for oa in a.operators:
      c = skeleton.code(ms, oa)
      opn = models.SUPPORTED_CODES.get(c)
      if opn is None:
        resolved.append((None, 'float', None))
        continue
      alg, cfg, _ = ref.resolve(opn, resolve.op_scope([name(o) for o in oa.outputs if int(o) != -1]))
      resolved.append((opn, c03.mode_of(alg, cfg), cfg))
    # effective (producer-imposed) ranges, in operator order
    eff = {}
    for oa, (opn, mode, cfg) in zip(a.operators, resolved):
      if mode != 'srq':
        continue
      ac = cfg.activation_tensor_config
      if opn in SAME_IN:
        s_in = int(oa.inputs[SAME_IN[opn]])
        st = eff.get(s_in) or stat(s_in)
        if st is not None:
          for o in oa.outputs:
            eff[int(o)] = st
      elif opn in FIXED:
        sc, zp = FIXED[opn][ac.num_bits]
        eff[int(oa.outputs[0])] = qparams.fixed_range_minmax(sc, zp, ac.num_bits, ac.symmetric)

    def actual(t1):
      qp = decode.qparams(b.tensors[t1])
      return None if qp is None else (qp[0], qp[1])

    def check_act(kind, opn, t0, t1, bits, sym, refs, rule, k, pos):
      """refs: list of (min, max) candidates; the attached tensor must match one."""
      ctx.count('operands')
      ctx.count('rule:' + rule)
      ctx.unit(common.digest([opn, rule, name(t0), kind, pos, k, common.sha(spec.content), acc]), True)
      got = actual(t1)
      f = {'op': opn, 'operand': kind, 'rule': rule, 'bits': bits, 'symmetric': sym}
      d = dict(base, tensor=name(t0), op_index=k, pos=pos)
      if got is None:
        ctx.violation('operand_without_parameters', f, d)
        return
      if got[0].size != 1:
        ctx.violation('per_axis_parameters_on_activation', f, d)
        return
      refs = [r for r in refs if r is not None]
      if not refs:
        ctx.count('no_statistics_for_operand')
        return
      for mn, mx in refs:
        rs, rz = qparams.zs(np.min(mn), np.max(mx), bits, sym)
        if float(np.max(np.asarray(mx, dtype=np.float64)) - np.min(np.asarray(mn, dtype=np.float64))) < qparams.MIN_BOUND:
          ctx.count('degenerate_range_operands')
        if qparams.matches(got[0], got[1], rs, rz, bits):
          return
      rs, rz = qparams.zs(np.min(refs[-1][0]), np.max(refs[-1][1]), bits, sym)
      ctx.violation('parameters_differ_from_reference', f,
                    dict(d, got=[float(got[0][0]), int(got[1][0])], want=[float(rs), float(rz)],
                         stats=[[float(np.min(r[0])), float(np.max(r[1]))] for r in refs]))

    def same_params(t1, t2):
      p, q = decode.qparams(b.tensors[t1]), decode.qparams(b.tensors[t2])
      return (p is not None and q is not None and np.array_equal(p[0], q[0]) and np.array_equal(p[1], q[1])
              and b.tensors[t1].type == b.tensors[t2].type)

    # ---- virtual INPUT operator (producer side of graph inputs)
    in_alg, in_cfg, _ = ref.resolve('INPUT', resolve.op_scope([name(t) for t in a.inputs]))
    if c03.mode_of(in_alg, in_cfg) == 'srq':
      consumed = {int(i) for op in a.operators for i in op.inputs}
      ac = in_cfg.activation_tensor_config
      for pos, (t0, t1) in enumerate(zip(a.inputs, b.inputs)):
        if a.tensors[int(t0)].type == TT.FLOAT32 and int(t0) in consumed:
          check_act('graph_input', 'INPUT', int(t0), int(t1), ac.num_bits, ac.symmetric, [stat(int(t0))], 'default', -1, pos)
    out_alg, out_cfg, _ = ref.resolve('OUTPUT', resolve.op_scope([]))
    if c03.mode_of(out_alg, out_cfg) == 'srq':
      ac = out_cfg.activation_tensor_config
      for pos, (t0, t1) in enumerate(zip(a.outputs, b.outputs)):
        if a.tensors[int(t0)].type == TT.FLOAT32:
          check_act('graph_output', 'OUTPUT', int(t0), int(t1), ac.num_bits, ac.symmetric,
                    [stat(int(t0)), eff.get(int(t0))], 'consumer', -1, pos)

    for k, (oa, (opn, mode, cfg)) in enumerate(zip(a.operators, resolved)):
      if mode == 'float':
        continue
      ob = b.operators[mp.kept[k]]
      wc = cfg.weight_tensor_config
      # ---------------- weights in every mode
      if opn in W_POS and len(oa.inputs) > W_POS[opn]:
        wpos = W_POS[opn]
        t0, t1 = int(oa.inputs[wpos]), int(ob.inputs[wpos])
        if t0 >= 0 and is_const(t0) and a.tensors[t0].type == TT.FLOAT32 and mode != 'fp16':
          stored_i = t1
          if t1 != t0:
            p = producer_of.get(t1)
            stored_i = int(p.inputs[0]) if p is not None and skeleton.code(mo, p) == models.BO.DEQUANTIZE else None
          if stored_i is not None and decode.qparams(b.tensors[stored_i]) is not None:
            st = b.tensors[stored_i]
            sc, zp, axis = decode.qparams(st)
            x = np.frombuffer(decode.raw(ms.buffers[a.tensors[t0].buffer]), dtype=np.float32).reshape(decode.shape_of(a.tensors[t0])).astype(np.float64)
            per_axis = wc.granularity == recipes.GR.CHANNELWISE
            f = {'op': opn, 'operand': 'weight', 'mode': mode, 'bits': wc.num_bits, 'symmetric': wc.symmetric, 'per_axis': per_axis}
            d = dict(base, tensor=name(t0), op_index=k, shape=list(x.shape))
            ctx.count('operands')
            ctx.count('rule:weight_per_axis' if per_axis else 'rule:weight_per_tensor')
            ctx.unit(common.digest([opn, 'weight', name(t0), common.sha(spec.content), acc]), True)
            if per_axis:
              adj = bool(oa.builtinOptions.adjY) if opn == 'BATCH_MATMUL' else False
              want_axis = qparams.weight_axis(opn, x.ndim, adj)
              per_axis_allowed.add((si, stored_i))
              red = tuple(i for i in range(x.ndim) if i != want_axis)
              rs, rz = qparams.zs(np.min(x, axis=red), np.max(x, axis=red), wc.num_bits, wc.symmetric)
              if sc.size != x.shape[want_axis]:
                ctx.violation('weight_parameter_count', f, dict(d, got=int(sc.size), want=int(x.shape[want_axis])))
              elif sc.size > 1 and axis != want_axis:
                ctx.violation('weight_quantized_dimension', dict(f, got_axis=axis, want_axis=want_axis), d)
              elif not qparams.matches(sc, zp, rs, rz, wc.num_bits):
                ctx.violation('parameters_differ_from_reference', dict(f, rule='weight_per_axis'),
                              dict(d, got=[sc[:3].tolist(), zp[:3].tolist()], want=[rs[:3].tolist(), rz[:3].tolist()]))
            else:
              rs, rz = qparams.zs(np.min(x), np.max(x), wc.num_bits, wc.symmetric)
              if sc.size != 1:
                ctx.violation('per_axis_parameters_on_per_tensor_config', f, d)
              elif not qparams.matches(sc, zp, rs, rz, wc.num_bits):
                ctx.violation('parameters_differ_from_reference', dict(f, rule='weight_per_tensor'),
                              dict(d, got=[float(sc[0]), int(zp[0])], want=[float(rs), float(rz)]))
            if wc.symmetric and np.any(zp != 0):
              ctx.violation('zero_point_nonzero_symmetric', f, d)
      if mode != 'srq':
        continue
      ac = cfg.activation_tensor_config
      bits, sym = ac.num_bits, ac.symmetric
      # ---------------- outputs
      for pos, (t0, t1) in enumerate(zip(oa.outputs, ob.outputs)):
        t0, t1 = int(t0), int(t1)
        if a.tensors[t0].type != TT.FLOAT32:
          continue
        if opn in FIXED:
          sc, zp = FIXED[opn][bits]
          ctx.count('operands')
          ctx.count('rule:fixed_range')
          ctx.unit(common.digest([opn, 'fixed', name(t0), common.sha(spec.content), acc]), True)
          got = actual(t1)
          if got is None or got[0].size != 1 or abs(float(got[0][0]) - sc) > 1e-7 * sc or int(got[1][0]) != zp:
            ctx.violation('fixed_range_output', {'op': opn, 'bits': bits},
                          dict(base, tensor=name(t0), got=None if got is None else [float(got[0][0]), int(got[1][0])], want=[sc, zp]))
        elif opn in SAME_IN:
          ctx.count('operands')
          ctx.count('rule:same_as_input')
          ctx.unit(common.digest([opn, 'same_in', name(t0), pos, common.sha(spec.content), acc]), True)
          if not same_params(t1, int(ob.inputs[SAME_IN[opn]])):
            ctx.violation('output_parameters_differ_from_input', {'op': opn, 'bits': bits},
                          dict(base, tensor=name(t0), got=str(actual(t1)), input=str(actual(int(ob.inputs[SAME_IN[opn]])))))
        else:
          check_act('out', opn, t0, t1, bits, sym, [stat(t0)], 'default', k, pos)
      # ---------------- inputs
      for pos, (t0, t1) in enumerate(zip(oa.inputs, ob.inputs)):
        t0, t1 = int(t0), int(t1)
        if t0 < 0 or a.tensors[t0].type != TT.FLOAT32:
          continue
        if opn in c03.INDEX_OPERANDS and pos in c03.INDEX_OPERANDS[opn]:
          continue
        if opn in c03.BIAS_IDX and pos == c03.BIAS_IDX[opn] and is_const(t0):
          ctx.count('operands')
          ctx.count('rule:bias')
          ctx.unit(common.digest([opn, 'bias', name(t0), common.sha(spec.content), acc]), True)
          got = decode.qparams(b.tensors[t1])
          pin = actual(int(ob.inputs[IN_POS[opn]]))
          pw = actual(int(ob.inputs[W_POS[opn]]))
          f = {'op': opn, 'operand': 'bias', 'bits': bits}
          d = dict(base, tensor=name(t0))
          if got is None or pin is None or pw is None:
            ctx.violation('bias_or_neighbour_without_parameters', f, d)
            continue
          per_axis_allowed.add((si, t1))
          want = (pin[0].astype(np.float64)[0] * pw[0].astype(np.float64)).reshape(-1)
          gsc = got[0].astype(np.float64).reshape(-1)
          if gsc.shape != want.shape or not np.all(np.abs(gsc - want) <= 1e-5 * want):
            ctx.violation('bias_scale_not_input_times_weight', f, dict(d, got=gsc[:3].tolist(), want=want[:3].tolist()))
          if np.any(got[1] != 0):
            ctx.violation('bias_zero_point_nonzero', f, d)
          continue
        if opn in W_POS and pos == W_POS[opn] and is_const(t0):
          continue  # weight: done above
        if opn == 'CONCATENATION':
          ctx.count('operands')
          ctx.count('rule:concat_input_same_as_output')
          ctx.unit(common.digest([opn, 'concat', name(t0), pos, common.sha(spec.content), acc]), True)
          if not same_params(t1, int(ob.outputs[0])):
            ctx.violation('concatenation_input_parameters_differ_from_output', {'bits': bits},
                          dict(base, tensor=name(t0), got=str(actual(t1)), output=str(actual(int(ob.outputs[0])))))
          continue
        if is_const(t0):
          x = np.frombuffer(decode.raw(ms.buffers[a.tensors[t0].buffer]), dtype=np.float32)
          check_act('in_const', opn, t0, t1, bits, sym, [(np.min(x), np.max(x))], 'constant_operand', k, pos)
        else:
          check_act('in', opn, t0, t1, bits, sym, [stat(t0), eff.get(t0)], 'consumer', k, pos)
  # per-channel parameters only on weight operands / biases
  for si, sg in enumerate(mo.subgraphs):
    for ti, t in enumerate(sg.tensors):
      qp = decode.qparams(t)
      if qp is not None and qp[0].size > 1 and (si, ti) not in per_axis_allowed:
        ctx.violation('per_axis_parameters_on_non_weight', {'dtype': decode.TYPE_NAME.get(t.type)},
                      dict(base, tensor=t.name.decode()))


DATA_MIX = [('normal',), ('normal', 'scaled'), ('positive',), ('negative',), ('zero', 'normal'), ('zero',), ('spike',),
            ('tiny',), ('huge',), ('normal', 'tiny', 'huge')]
POOL = recipes.SRQ * 3 + recipes.DRQ + recipes.WO + ['noq']


def run_case(ctx, case, rng):
  seen = False
  for spec, src, datasets, lab, run, acc in common.graph_workload(
      ctx, case, rng, safe_regex=True, cfg_pool=POOL, n_random=3, star_p=0.6, data_mix=DATA_MIX):
    seen = True
    if run.exc is None:
      check_pair(ctx, spec, src, run, acc)
      if ctx.sample is None and run.need_cal:
        ctx.sample = {'ops': common.describe_model(spec.content, src), 'rules': acc, 'operands_checked': int(ctx.stats.get('operands', 0))}
  if not seen:
    return {'outcome': 'skipped', 'reason': 'generator_reject'}
  return {}


def summarize(agg):
  st = agg['stats']
  inc = []
  for r in ('default', 'consumer', 'fixed_range', 'same_as_input', 'concat_input_same_as_output', 'bias', 'weight_per_axis',
            'weight_per_tensor', 'constant_operand'):
    if st.get('rule:' + r, 0) == 0:
      inc.append(f'rule {r} had no instance')
  if st.get('degenerate_range_operands', 0) == 0:
    inc.append('no degenerate range was observed')
  return {'inconclusive': inc}
