"""C16 -- large-model (external buffer) serialization equals the in-place form."""
import os
import numpy as np
from ai_edge_litert import schema_py_generated as S
from ai_edge_quantizer import quantizer as aeq, model_modifier
from tensorflow.lite.tools import flatbuffer_utils as fu
from vf.gen import models, recipes
from vf.oracle import interp
from vf.props import c01, common

LEVEL = 'exploration'
GUARD = 'AI_EDGE_QUANTIZER_VERIF'
THR = 'AI_EDGE_QUANTIZER_VERIF_LARGE_MODEL_THRESHOLD'
RULE = ('every case quantizes one generated model with one recipe twice through the public quantize(): once on the ordinary path and '
        'once with the guarded threshold hook lowered (0..64 bytes) so that the large-model path serialises it.  Models: random DAGs, '
        'templates with shared buffers, and directed fully-connected stacks whose quantized weights are 1, 15, 16, 17, 31, 33 bytes '
        'or zero-length.  Raw flatbuffer accessors observe offset/size; object trees with buffers blanked are re-serialised and '
        'compared; both byte strings are loaded and invoked.  In 30% of the cases the large form comes from a Quantizer object that already '
        'quantized the model with another recipe on the large path (history).  distinct by (graph structure, recipe, threshold); non-trivial iff the '
        'large path was actually taken and >=1 buffer carries data')
ASSUMPTIONS = ['"size aligned" is read as: every buffer starts on a 16-byte boundary and the padded extent does not overlap the next one',
               'the stored size is the exact data length (TFLite format)']
LARGE_CALLS = [0]


def plan(tier):
  return {'n_cases': 700 if tier == 'quick' else 42000, 'shards': 16}


def setup(ctx):
  orig = getattr(model_modifier.ModelModifier, '_serialize_large_model', None)
  ctx.reach_hook = orig is not None
  if orig is not None:
    def spy(self, m):
      LARGE_CALLS[0] += 1
      return orig(self, m)
    model_modifier.ModelModifier._serialize_large_model = spy  # reach counter only


def odd_sizes_model(rng):
  """FC stack whose weight buffers have awkward byte sizes after 8-bit / 4-bit quantization."""
  b = models.B()
  g = models.G(b, 'main', 'm/', rng)
  shapes = [(1, 1), (3, 5), (4, 4), (1, 17), (1, 31), (3, 11)]
  rng.shuffle(shapes)
  x = g.inp((1, shapes[0][1]))
  outs = []
  cur = x
  for (u, i) in shapes[:int(rng.integers(2, 6))]:
    xi = g.inp((1, i))
    outs.append(g.fc(xi, u, bias=bool(rng.random() < 0.5)))
  outs.append(g.tanh(x))
  if rng.random() < 0.5:
    # 1-3 zero-length constants (each with its own, empty-vector buffer)
    y = outs.pop(0)
    for _ in range(int(rng.integers(1, 4))):
      e = g.const('empty', np.zeros((0,), dtype=np.float32))
      y = g.concat([y, g.reshape(e, [1, 0])], 1)
    outs.append(y)
  g.finish(outs, 'serving_default')
  return models._spec(b, [g], 'odd_sizes')


def is_large_form(content):
  """Observed at the boundary: the external-buffer form is the one in which some buffer carries an offset > 1."""
  root = S.Model.GetRootAs(content, 0)
  return any(root.Buffers(i).Offset() > 1 for i in range(root.BuffersLength()))


def blank(content):
  m = fu.read_model_from_bytearray(bytearray(content))
  for buf in m.buffers:
    buf.data = None
    buf.offset = 0
    buf.size = 0
  return bytes(fu.convert_object_to_bytearray(m))


def compare(ctx, small, large, base):
  rs = S.Model.GetRootAs(small, 0)
  rl = S.Model.GetRootAs(large, 0)
  f = {}
  if rs.BuffersLength() != rl.BuffersLength():
    ctx.violation('buffer_count_differs', f, base)
    return 0
  spans = []
  n_data = 0
  for i in range(rl.BuffersLength()):
    bs, bl = rs.Buffers(i), rl.Buffers(i)
    emb = bs.DataAsNumpy().tobytes() if bs.DataLength() else b''
    ctx.count('buffers_checked')
    if bl.DataLength():
      ctx.violation('inline_data_left_in_large_form', f, dict(base, buffer=i))
    off, size = bl.Offset(), bl.Size()
    if bs.DataIsNone():
      if off or size:
        ctx.violation('empty_buffer_has_offset', f, dict(base, buffer=i, offset=off, size=size))
      continue
    if len(emb) == 0:
      # zero-length constant: it selects no bytes; (0, 0) or any in-bounds offset with size 0 is the same content
      ctx.count('zero_length_buffers')
      if size != 0 or off > len(large):
        ctx.violation('zero_length_buffer_selects_bytes', f, dict(base, buffer=i, offset=off, size=size))
      continue
    n_data += 1
    ctx.count('size_mod16:%d' % (len(emb) % 16))
    if off % 16:
      ctx.violation('offset_not_16_byte_aligned', f, dict(base, buffer=i, offset=off))
    if off <= 1 or off + size > len(large):
      ctx.violation('buffer_out_of_bounds', f, dict(base, buffer=i, offset=off, size=size, total=len(large)))
      continue
    if size != len(emb) or large[off:off + size] != emb:
      ctx.violation('external_bytes_differ_from_embedded', f, dict(base, buffer=i, offset=off, size=size, embedded=len(emb)))
    spans.append((off, off + size, i))
  spans.sort()
  for (a0, a1, i), (b0, b1, j) in zip(spans, spans[1:]):
    if b0 < a1:
      ctx.violation('buffers_overlap', f, dict(base, buffers=[i, j]))
  # the flatbuffer part must not be overlapped by buffer data: the first data offset lies beyond the root table
  if spans and spans[0][0] < 8:
    ctx.violation('buffer_overlaps_header', f, base)
  try:
    if blank(small) != blank(large):
      ctx.violation('other_fields_differ', f, base)
  except Exception as e:  # pylint: disable=broad-except
    ctx.violation('large_form_not_parseable', {'exc': type(e).__name__}, dict(base, msg=str(e)[:200]))
  return n_data


def run_case(ctx, case, rng):
  r = rng.random()
  if r < 0.3:
    spec = odd_sizes_model(rng)
  else:
    spec = models.model_for_case(rng, multi_sub_p=0.1, template_p=0.25)
  datasets = common.make_data(rng, spec)
  ok, _ = common.admit(spec, datasets)
  if not ok:
    return {'outcome': 'skipped', 'reason': 'generator_reject'}
  src = models.read(spec.content)
  if rng.random() < 0.5:
    rules = [('.*', '*', str(rng.choice(['wo8a_cw', 'wo4a_cw', 'wo4s_cw', 'drq8_cw', 'drq4_cw', 'srq8a_cw', 'srq8a_w4', 'fp16'])))]
  else:
    rules = recipes.random_rules(rng, src, safe_regex=True)
  thr = int(rng.choice([0, 0, 0, 1, 15, 16, 17, 64]))
  os.environ.pop(THR, None)
  small = common.pipeline(spec, datasets, rules=rules)
  if small.phase == 'no_rule_accepted':
    return {'outcome': 'skipped', 'reason': 'no_rule_accepted'}
  before = LARGE_CALLS[0]
  reuse = rng.random() < 0.3 and small.exc is None
  os.environ[THR] = str(thr)
  try:
    if reuse:
      # history: the SAME Quantizer object first quantizes with another recipe on the large path, then with this one
      ctx.count('reused_quantizer_histories')
      large = common.Run()
      large.accepted = small.accepted
      try:
        other = [('.*', '*', str(rng.choice(['wo8a_cw', 'wo4a_cw', 'drq8_cw', 'fp16'])))]
        qt = aeq.Quantizer(spec.content)
        recipes.apply_rules(qt, other)
        try:
          qt.quantize(None)
        except Exception:  # pylint: disable=broad-except
          pass
        qt.load_quantization_recipe(small.recipe)
        before = LARGE_CALLS[0]   # only the quantize() under comparison counts
        large.out = bytes(qt.quantize(small.cal if small.need_cal else None).quantized_model)
      except Exception as e:  # pylint: disable=broad-except
        large.exc = e
    else:
      large = common.pipeline(spec, datasets, rules=rules, cal=small.cal if small.need_cal else None)
  finally:
    os.environ.pop(THR, None)
  took_large = (large.out is not None and is_large_form(large.out)) or LARGE_CALLS[0] > before
  base = {'rules': small.accepted, 'ops': common.describe_model(spec.content, src), 'threshold': thr, 'reused_quantizer': bool(reuse)}
  if (small.exc is None) != (large.exc is None):
    ctx.violation('one_path_raised', {'small_raised': small.exc is not None},
                  dict(base, small=str(small.exc)[:200], large=str(large.exc)[:200]))
    return {}
  if small.exc is not None:
    return {'outcome': 'skipped', 'reason': 'quantize_raised_on_both_paths'}
  if took_large:
    ctx.count('large_path_taken')
  else:
    ctx.count('large_path_not_taken')
    if small.out != large.out:
      ctx.violation('ordinary_path_not_deterministic', {}, base)
    ctx.key = common.model_key(spec, [small.recipe, thr])
    return {}
  n_data = compare(ctx, small.out, large.out, base)
  if case % 5 == 2:
    # the float model itself may ARRIVE in external-buffer form (that is how > 2 GB float models are stored): both paths must
    # produce what they produce for the in-place form of the same model
    import dataclasses
    ext = models.externalize(spec.content)
    if ext != spec.content:
      ctx.count('external_buffer_input_models')
      spec_x = dataclasses.replace(spec, content=ext)
      for label, want, env in (('ordinary', small.out, None), ('large', large.out if not reuse else None, str(thr))):
        if want is None:
          continue
        os.environ.pop(THR, None)
        if env is not None:
          os.environ[THR] = env
        try:
          rx = common.pipeline(spec_x, datasets, rules=rules, cal=small.cal if small.need_cal else None)
        finally:
          os.environ.pop(THR, None)
        if rx.exc is not None:
          ctx.violation('external_buffer_input_raised', {'path': label, 'exc': common.exc_signature(rx.exc)[:80]}, base)
        elif rx.out != want:
          ctx.violation('external_buffer_input_gives_other_bytes', {'path': label}, dict(base, n_inplace=len(want), n_external=len(rx.out)))
  ctx.key = common.model_key(spec, [small.recipe, thr])
  ctx.nontrivial = n_data > 0
  ctx.sample = dict(base, buffers_with_data=n_data, small_bytes=len(small.out), large_bytes=len(large.out))
  if ctx.violations:
    return {}
  # both serialisations load and compute identical outputs
  def go():
    for s in spec.signatures:
      x = datasets[s['key']][0]
      try:
        o1, _, _ = interp.quant_run(small.out, s['key'], x)
      except Exception as e:  # pylint: disable=broad-except
        ctx.count('ordinary_form_not_runnable')   # C01's business
        return
      try:
        o2, _, _ = interp.quant_run(large.out, s['key'], x)
      except Exception as e:  # pylint: disable=broad-except
        ctx.violation('large_form_not_runnable', {'exc': type(e).__name__}, dict(base, msg=str(e)[-300:]))
        return
      ctx.count('interpreter_comparisons')
      for k in o1:
        if o1[k].dtype != o2[k].dtype or o1[k].tobytes() != o2[k].tobytes():
          # a kernel reading uninitialised memory (KF-DWCONV-DRQ-TENSORWISE) gives different values per interpreter instance: the
          # mechanism is read off the model, and the ordinary form is re-run a few times as well
          if common.has_hybrid_tensorwise_dwconv(small.out):
            ctx.count('nonreproducible_kernel_pattern_skipped')
            return
          for _ in range(4):
            o1b, _, _ = interp.quant_run(small.out, s['key'], x)
            if o1b[k].tobytes() != o1[k].tobytes():
              ctx.count('ordinary_form_not_reproducible_skipped')
              return
          ctx.violation('interpreter_outputs_differ', {}, dict(base, output=k))
          return
  ctx.risky('interp.both_forms', go, common.risky_info(small, spec, datasets, {'rules': small.accepted}))
  return {}


crash_to_violation = c01.crash_to_violation


def summarize(agg):
  st = agg['stats']
  inc = []
  if st.get('large_path_taken', 0) == 0:
    inc.append('the large-model path was never taken (hook missing or guard off)')
  if st.get('interpreter_comparisons', 0) == 0:
    inc.append('interpreter comparison never reached')
  if len([k for k in st if k.startswith('size_mod16:')]) < 8:
    inc.append('fewer than 8 distinct (size mod 16) classes')
  return {'inconclusive': inc}
