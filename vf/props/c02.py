"""C02 -- quantization preserves the graph skeleton and the model I/O contract."""
from vf.gen import models, recipes
from vf.oracle import skeleton, resolve
from vf.props import common

LEVEL = 'translation_validation'
RULE = ('C01 workload restricted to returns (regexes restricted to forms on which every scope encoding '
        'agrees); a unit is one returned (model, recipe) pair diffed against its source; distinct by '
        '(graph structure, exported recipe); non-trivial iff >=1 QUANTIZE/DEQUANTIZE was inserted (so '
        'alias-collapse has something to collapse)')
ASSUMPTIONS = ['"inserted" operator = QUANTIZE/DEQUANTIZE with 1 input/1 output whose output index >= source tensor count',
               'boundary tensor names are compared after alias-collapse (first sentence of the statement)',
               'signature <-> subgraph input/output agreement is compared literally']
TT = models.TT


def plan(tier):
  return {'n_cases': 1200 if tier == 'quick' else 24000, 'shards': 16}


def check_pair(ctx, spec, src, run, acc, lab):
  errs, maps, ms, mo = skeleton.analyse(spec.content, run.out, ms=src)
  kinds = sorted({e[0] for e in errs})
  for k in kinds:
    ex = next(e for e in errs if e[0] == k)
    ctx.violation('skeleton', {'error': k},
                  {'example': ex, 'recipe': run.recipe, 'ops': common.describe_model(spec.content, src), 'label': lab})
  if 'model_bytes' in run.mutations:
    ctx.violation('source_model_mutated', {}, {'recipe': run.recipe})
  # boundary dtypes
  ref = recipes.reference_for(acc)
  if maps is not None and len(ms.subgraphs) == len(mo.subgraphs):
    for si, (a, b) in enumerate(zip(ms.subgraphs, mo.subgraphs)):
      if len(a.inputs) != len(b.inputs) or len(a.outputs) != len(b.outputs):
        continue
      names = [a.tensors[int(t)].name.decode() for t in a.inputs]
      in_alg, in_cfg, _ = ref.resolve('INPUT', resolve.op_scope(names))
      out_alg, out_cfg, _ = ref.resolve('OUTPUT', resolve.op_scope([]))
      for kind, la, lb, alg in (('input', a.inputs, b.inputs, in_alg), ('output', a.outputs, b.outputs, out_alg)):
        for pos, (ta, tb) in enumerate(zip(la, lb)):
          ctx.count('boundary_tensors')
          if not 0 <= int(tb) < len(b.tensors):
            continue
          if int(tb) != int(ta):
            ctx.count('boundary_rewired_' + kind)
          covered = alg != resolve.NOQ
          if covered:
            ctx.count('boundary_covered_by_rule')
            continue
          if b.tensors[int(tb)].type != a.tensors[int(ta)].type:
            ctx.violation('io_dtype_changed_without_rule', {'kind': kind},
                          {'subgraph': si, 'pos': pos, 'recipe': run.recipe,
                           'ops': common.describe_model(spec.content, src)})
    # signature dtype seen through the signature map
    for s_src, s_out in zip(ms.signatureDefs or [], mo.signatureDefs or []):
      if s_src.subgraphIndex >= len(mo.subgraphs):
        continue
      ctx.count('signatures_checked')
  return maps, mo


def run_case(ctx, case, rng):
  seen = False
  for spec, src, datasets, lab, run, acc in common.graph_workload(ctx, case, rng, safe_regex=True):
    seen = True
    if run.exc is not None:
      continue
    maps, mo = check_pair(ctx, spec, src, run, acc, lab)
    nq, ndq = common.count_inserted(src, mo)
    ctx.count('inserted_ops', max(nq, 0) + max(ndq, 0))
    ctx.unit(common.model_key(spec, run.recipe), nontrivial=(nq + ndq > 0))
    if ctx.sample is None and nq + ndq:
      ctx.sample = {'ops': common.describe_model(spec.content, src), 'label': lab, 'recipe': run.recipe,
                    'inserted_q_dq': [nq, ndq], 'classes': sorted(spec.classes)}
  if not seen:
    return {'outcome': 'skipped', 'reason': 'generator_reject'}
  return {}


def summarize(agg):
  st = agg['stats']
  inc = []
  if st.get('returned', 0) < 50:
    inc.append(f"only {st.get('returned', 0)} returns observed")
  if st.get('inserted_ops', 0) == 0:
    inc.append('no inserted operator was ever observed')
  if st.get('boundary_rewired_output', 0) + st.get('boundary_rewired_input', 0) == 0:
    inc.append('no boundary rewiring was ever observed')
  return {'inconclusive': inc,
          'coverage': {'programs': int(st.get('returned', 0)), 'disagreements_checked': int(st.get('boundary_tensors', 0)),
                       'explanation': 'programs = returned models diffed against their source; disagreements_checked = boundary tensors compared'}}
