"""C10 -- calibration and quantization select the same ops; stats are never missing."""
import re
import numpy as np
from ai_edge_quantizer import quantizer as aeq, qtyping
from vf.gen import models, recipes, data as gdata
from vf.monitors import trace
from vf.oracle import skeleton
from vf.props import common

LEVEL = 'exploration'
OP = qtyping.TFLOperationName
RULE = ('generated models (1-3 signatures; tensor names with "_" or ";" separators; multi-output SPLIT) x recipes of 1-3 '
        'rules containing at least one static-range rule, regexes from the full family (.*, substring, prefix, ^name, '
        'name$, ^name$, "name;", alternation) x selectors x configs; calibrate() per signature chained through '
        'previous_calibration_result, then quantize().  Monitors: resolution trace compared per (operator, scope) between '
        'the two phases; boundary oracle on exceptions and on calibration keys vs operators the reference resolver selects.  '
        'distinct by (graph structure, recipe); non-trivial iff the recipe selected >=1 operator in some phase')
ASSUMPTIONS = ['decisions are paired by operator identity (subgraph, output tensor indices) captured at the scope computation of each phase; '
               'if those hooks are missing, by scope with the ";" separators stripped']
TT = models.TT
MISSING = re.compile(r'not found in tensor_name_to_qsv|min and max must be provided|QSVs\) are required')


def plan(tier):
  return {'n_cases': 700 if tier == 'quick' else 42000, 'shards': 16}


def setup(ctx):
  ctx.trace_on = trace.install()


def pick_rules(rng, src):
  names = recipes.output_names(src)
  in_names = [sg.tensors[int(i)].name.decode() for sg in src.subgraphs for i in sg.inputs]
  ops = recipes.op_names_in(src) or ['FULLY_CONNECTED']
  rules = []
  n = int(rng.integers(1, 4))
  static_at = int(rng.integers(n))          # position of the guaranteed static-range rule
  shared_rx = None
  if n > 1 and rng.random() < 0.3:
    shared_rx = recipes.regex_family(rng, names, safe_only=False)   # several op-specific rules under ONE regex
  for i in range(n):
    r = rng.random()
    sel = '*' if r < 0.5 else 'INPUT' if r < 0.62 else 'OUTPUT' if r < 0.67 else str(rng.choice(ops))
    rx, form = recipes.regex_family(rng, in_names if (sel == 'INPUT' or (sel == '*' and rng.random() < 0.25)) else names, safe_only=False)
    if shared_rx is not None:
      rx, form = shared_rx
      if sel == '*':
        sel = str(rng.choice(ops))
    name = str(rng.choice(recipes.SRQ)) if (i == static_at or rng.random() < 0.4) else str(rng.choice(recipes.GOOD))
    rules.append((rx, sel, name, form))
  return rules


def reference_selected(src, acc):
  """Per subgraph: tensor indices adjacent to an operator the reference resolver selects
  (scope = output names each followed by ';', the documented encoding)."""
  from vf.oracle import resolve
  ref = recipes.reference_for([a[:3] for a in acc])
  out = []
  for sg in src.subgraphs:
    touched = set()
    nm = lambda t: sg.tensors[int(t)].name.decode()
    for op in sg.operators:
      c = src.operatorCodes[op.opcodeIndex].builtinCode
      if c not in models.SUPPORTED_CODES:
        continue
      alg, _, _ = ref.resolve(models.SUPPORTED_CODES[c], resolve.op_scope([nm(o) for o in op.outputs if int(o) >= 0]))
      if alg != resolve.NOQ:
        touched.update(int(t) for t in list(op.inputs) + list(op.outputs) if int(t) >= 0)
    if ref.resolve('INPUT', resolve.op_scope([nm(t) for t in sg.inputs]))[0] != resolve.NOQ:
      touched.update(int(t) for t in sg.inputs)
    if ref.resolve('OUTPUT', resolve.op_scope([]))[0] != resolve.NOQ:
      touched.update(int(t) for t in sg.outputs)
    out.append(touched)
  return out


def run_case(ctx, case, rng):
  n_sub = 1 if rng.random() < 0.6 else int(rng.integers(2, 4))
  sep = str(rng.choice(['_', '_', '_', ';', ';', ':', '.']))     # ':' and '.' as in 'StatefulPartitionedCall:0' / 'arith.constant1' ('.' is a regex metacharacter)
  if rng.random() < 0.15 and n_sub == 1:
    spec = models.TEMPLATES[int(rng.integers(len(models.TEMPLATES)))](rng)
  else:
    spec = models.rand_model(rng, n_sub=n_sub, sep=sep)
  datasets = common.make_data(rng, spec)
  ok, _ = common.admit(spec, datasets)
  if not ok:
    return {'outcome': 'skipped', 'reason': 'generator_reject'}
  src = models.read(spec.content)
  multi = len(spec.signatures) > 1
  ctx.count('multi_signature_models' if multi else 'single_signature_models')
  for _ in range(2):
    rules = pick_rules(rng, src)
    qt = aeq.Quantizer(spec.content)
    acc = []
    if rng.random() < 0.25:
      # history: the Quantizer has already been used with another recipe (need_calibration queried, calibrate/quantize
      # attempted) before the rules under test are added on top
      ctx.count('warmed_quantizer_histories')
      for rx, sel, name, form in pick_rules(rng, src)[:2]:
        if rng.random() < 0.5:
          name = str(rng.choice(recipes.FLOAT_COMPUTE))
        alg, cfg = recipes.CFGS[name]
        try:
          qt.update_quantization_recipe(rx, OP(sel), cfg, alg)
          acc.append((rx, sel, name, form))
        except ValueError:
          pass
      try:
        _ = qt.need_calibration
        c0 = None
        for s in spec.signatures:
          c0 = qt.calibrate(datasets[s['key']], signature_key=s['key'] if multi else None, previous_calibration_result=c0)
        qt.quantize(c0)
      except Exception:  # pylint: disable=broad-except
        pass
    for rx, sel, name, form in rules:
      alg, cfg = recipes.CFGS[name]
      try:
        qt.update_quantization_recipe(rx, OP(sel), cfg, alg)
        acc.append((rx, sel, name, form))
      except ValueError:
        pass
    if not acc:
      ctx.count('no_rule_accepted')
      continue
    # reference for "needs calibration": some rule of the exported recipe is static-range (integer compute with an activation config)
    exported = recipes.json_recipe(qt.get_quantization_recipe())
    need_ref = any(e['op_config'].get('compute_precision') == 'INTEGER' and 'activation_tensor_config' in e['op_config'] for e in exported)
    if bool(qt.need_calibration) != need_ref:
      ctx.violation('need_calibration_disagrees_with_recipe', {'library': bool(qt.need_calibration), 'reference': need_ref},
                    {'rules': [a[:3] for a in acc], 'exported': exported})
    if not need_ref:
      ctx.count('recipe_without_static_rule')
      continue
    forms = sorted({a[3] for a in acc})
    feats = {'multi_signature': multi, 'regex_forms': forms, 'sep': sep, 'control_flow_subgraphs': 'control_flow' in spec.classes}
    detail = {'rules': [a[:3] for a in acc], 'ops': common.describe_model(spec.content, src)}
    del trace.TRACE[:]
    cal = None
    try:
      for s in spec.signatures:
        cal = qt.calibrate(datasets[s['key']], signature_key=s['key'] if multi else None,
                           previous_calibration_result=cal)
    except Exception as e:  # pylint: disable=broad-except
      ctx.violation('calibrate_raised', dict(feats, exc=common.exc_signature(e)[:80]), detail)
      ctx.unit(common.model_key(spec, acc), True)
      continue
    ctx.count('calibrations')
    out = None
    try:
      out = bytes(qt.quantize(cal).quantized_model)
      ctx.count('quantize_returned')
    except Exception as e:  # pylint: disable=broad-except
      if MISSING.search(str(e)):
        ctx.violation('quantize_raised_for_missing_statistics',
                      dict(feats, exc=common.exc_signature(e)[:60], calibration_result_empty=(len(cal) == 0)), detail)
      else:
        ctx.count('quantize_raised_other:' + common.exc_signature(e)[:60])
    # ---- trace comparison
    selected_any = False
    if ctx.trace_on:
      dec = {'calibrate': {}, 'quantize': {}}
      for ph, op, scope, alg, ident in trace.TRACE:
        key = (op, ident) if (trace.OP_IDENTITY[0] and ident is not None) else (op, scope.replace(';', ''))
        dec[ph][key] = alg != 'no_quantize'
      both = set(dec['calibrate']) & set(dec['quantize'])
      ctx.count('decisions_compared', len(both))
      for f in forms:
        ctx.count('form_compared:' + f)
      dis = sorted(k for k in both if dec['calibrate'][k] != dec['quantize'][k])
      selected_any = any(dec['calibrate'].values()) or any(dec['quantize'].values())
      if selected_any:
        for f in forms:
          ctx.count('form_selected:' + f)
      if dis:
        k = dis[0]
        ctx.violation('phases_disagree_on_operator',
                      dict(feats, honoured_by='calibration_only' if dec['calibrate'][k] else 'quantization_only'),
                      dict(detail, operator=k[0], scope_or_identity=str(k[1]), n_disagreements=len(dis)))
    # ---- boundary oracle: calibration keys vs operators the reference resolver selects
    if cal is not None:
      if True:
        touched = reference_selected(src, acc)
        name2 = {}
        for si, sg in enumerate(src.subgraphs):
          for ti, t in enumerate(sg.tensors):
            name2[t.name.decode()] = (si, ti)
        stale = [k for k in cal if k in name2 and name2[k][1] not in touched[name2[k][0]]]
        ctx.count('calibration_keys_checked', len(cal))
        if stale:
          ctx.violation('calibrated_tensor_adjacent_to_no_selected_operator', feats,
                        dict(detail, n_stale=len(stale), example=stale[:3]))
        if any(touched):
          selected_any = True
    ctx.unit(common.model_key(spec, [a[:3] for a in acc]), selected_any)
    if ctx.sample is None and selected_any:
      ctx.sample = dict(detail, signatures=len(spec.signatures), regex_forms=forms)
  return {}


def summarize(agg):
  st = agg['stats']
  inc = []
  trace_on = st.get('decisions_compared', 0) > 0
  if not trace_on and st.get('calibration_keys_checked', 0) == 0:
    inc.append('neither the resolution trace nor the boundary oracle observed anything')
  for f in ('dotstar', 'substr', 'prefix', 'interior', 'exact_end', 'exact_both', 'with_sep', 'alt', 'caret'):
    if trace_on and st.get('form_compared:' + f, 0) == 0:
      inc.append(f'regex form {f} never reached the comparison')
  if st.get('multi_signature_models', 0) == 0:
    inc.append('no multi-signature model was calibrated')
  return {'inconclusive': inc, 'coverage': {'resolution_trace_monitor': 'on' if trace_on else 'disabled (hooked attribute missing); verdict from the API-boundary oracles only'}}
