"""C12 -- a saved recipe reloads to the same rules and reproduces the same model."""
import copy
import glob
import json
import os
import shutil
import numpy as np
from ai_edge_quantizer import quantizer as aeq, qtyping
from vf.gen import models, recipes
from vf.props import common

LEVEL = 'exploration'
OP = qtyping.TFLOperationName
RULE = ('case 0: every file under recipes/ loaded, default_*/dynamic_* files re-exported and compared with the file.  '
        'Other cases: a recipe reached by a random sequence of 1-6 update/load calls (all algorithms, enum- or '
        'string-valued arguments, omitted config, no_quantize with and without a config) on a generated model; '
        'JSON round trip -> fresh Quantizer -> equal recipe, identical resolution over (model operators + 6 fixed) '
        'x (model scopes + 4 fixed), byte-identical quantize() output with the same statistics; QuantizationResult.save '
        'file re-loaded.  distinct by exported recipe JSON; non-trivial iff the recipe has >=2 rules or a rule that '
        'is not the plain ".*"/"*" form')
ASSUMPTIONS = ['BLOCKWISE rules excluded; skip_checks rules are included for the round trip (their quantize() outcome only has to be the same on both sides)', 'the advanced-usage sample must load but need not re-export verbatim']


def plan(tier):
  return {'n_cases': 400 if tier == 'quick' else 32000, 'shards': 16}


def shipped_case(ctx):
  d = recipes.RECIPE_DIR
  dummy = models.t_chain(np.random.default_rng(0)).content
  files = sorted(glob.glob(os.path.join(d, '*.json')))
  ctx.key = 'shipped_files'
  ctx.nontrivial = True
  ctx.sample = {'files': [os.path.basename(f) for f in files]}
  for f in files:
    base = os.path.basename(f)
    ctx.count('shipped_files')
    try:
      qt = aeq.Quantizer(dummy, f)
      r = recipes.json_recipe(qt.get_quantization_recipe())
    except Exception as e:  # pylint: disable=broad-except
      ctx.violation('shipped_recipe_does_not_load', {'file': base, 'exc': type(e).__name__}, str(e)[:200])
      continue
    if base.startswith(('default_', 'dynamic_')):
      with open(f) as fh:
        src = json.load(fh)
      if r != src:
        ctx.violation('default_recipe_reexport_differs', {'file': base}, {'exported': r, 'file': src})
  # the recipe helper shipped in recipe.py
  try:
    from ai_edge_quantizer import recipe as recipe_mod
    helper = recipe_mod.dynamic_wi8_afp32()
    qt = aeq.Quantizer(dummy, copy.deepcopy(helper))
    r = recipes.json_recipe(qt.get_quantization_recipe())
    ctx.count('shipped_files')
    if r != recipes.json_recipe(helper):
      ctx.violation('default_recipe_reexport_differs', {'file': 'recipe.dynamic_wi8_afp32()'}, {'exported': r, 'helper': helper})
  except Exception as e:  # pylint: disable=broad-except
    ctx.violation('shipped_recipe_does_not_load', {'file': 'recipe.dynamic_wi8_afp32()', 'exc': type(e).__name__}, str(e)[:200])
  return {}


def build_recipe(rng, qt, src, twin=None):
  """Random update/load sequence through the public API.  Returns descriptors of what was tried.

  `qt` is also OBSERVED between the updates (export, need_calibration); `twin` receives the same updates and loads
  but is never observed before the end: reading the recipe must not change what is read later."""
  names = recipes.output_names(src)
  ops = recipes.op_names_in(src) or ['FULLY_CONNECTED']
  tried = []
  for _ in range(int(rng.integers(1, 7))):
    rx, form = recipes.regex_family(rng, names, safe_only=False)
    r = rng.random()
    sel = '*' if r < 0.4 else 'INPUT' if r < 0.45 else 'OUTPUT' if r < 0.5 else str(rng.choice(ops))
    name = str(rng.choice(recipes.GOOD + ['default_none', 'noq_with_cfg', 'bad_drq16', 'skip_checks']))
    if name == 'skip_checks':
      # forcibly accepted configs (advanced-user flag): must survive the round trip like any other rule
      base_cfg = recipes.CFGS[str(rng.choice(['drq8_tw', 'wo8s_tw', 'srq8a_tw', 'bad_drq16']))][1]
      import dataclasses
      alg, cfg = recipes.MINMAX, dataclasses.replace(base_cfg, skip_checks=True)
      if rng.random() < 0.4:
        # block-wise (sub-channel) weights are only reachable with skip_checks; the recipe must still round-trip
        cfg = recipes.C(None, recipes.T(int(rng.choice([4, 8])), True, recipes.GR.BLOCKWISE, block_size=int(rng.choice([2, 4, 32]))),
                        recipes.CP.INTEGER, skip_checks=True)
        sel = 'FULLY_CONNECTED'
    elif name == 'default_none':
      alg, cfg = recipes.MINMAX, None
    elif name == 'noq_with_cfg':
      alg, cfg = recipes.NOQ, recipes.CFGS[str(rng.choice(['wo8a_cw', 'srq8a_cw', 'drq8_cw']))][1]
    else:
      alg, cfg = recipes.CFGS[name]
    as_str = rng.random() < 0.3
    def both(fn):
      """The same step on the observed Quantizer and (errors ignored there) on the never-observed twin."""
      try:
        fn(qt)
        return None
      except ValueError:
        return 'rejected'
      except Exception as e:  # pylint: disable=broad-except
        tried.append(('raised', type(e).__name__, str(e)[:80]))
        return 'raised'
      finally:
        if twin is not None:
          try:
            fn(twin)
          except Exception:  # pylint: disable=broad-except
            pass
    if rng.random() < 0.12 and tried:
      if both(lambda q: q.load_quantization_recipe(recipes.json_recipe(q.get_quantization_recipe()))) is None:
        tried.append(('load_own_export',))
    if both(lambda q: q.update_quantization_recipe(rx, sel if as_str else OP(sel), copy.deepcopy(cfg),
                                                   alg if as_str else aeq.AlgorithmName(alg))) is None:
      tried.append((rx, sel, name, 'str' if as_str else 'enum'))
    if twin is not None and rng.random() < 0.35:
      try:
        if rng.random() < 0.6:
          got = qt.get_quantization_recipe()
          tried.append(('observe_export',))
          if rng.random() < 0.5:
            # ... and EDITS what it was handed (to derive a variant for another Quantizer): the exported object is the caller's now,
            # nothing the Quantizer says or does later may change with it
            for ent in got:
              oc = ent.get('op_config') if isinstance(ent, dict) else None
              if isinstance(oc, dict):
                wt = oc.get('weight_tensor_config')
                if isinstance(wt, dict):
                  wt['num_bits'] = 4 if wt.get('num_bits') != 4 else 8
                  wt['symmetric'] = not wt.get('symmetric', True)
                oc['compute_precision'] = 'FLOAT'
              if isinstance(ent, dict):
                ent['regex'] = 'scribbled'
            tried.append(('caller_edits_exported_recipe',))
        else:
          _ = qt.need_calibration
          tried.append(('observe_need_calibration',))
      except Exception as e:  # pylint: disable=broad-except
        tried.append(('observe_raised', type(e).__name__))
  return tried


def run_case(ctx, case, rng):
  if case == 0:
    return shipped_case(ctx)
  spec = models.model_for_case(rng, multi_sub_p=0.0, template_p=0.2, n_ops=int(rng.integers(1, 6)))
  datasets = common.make_data(rng, spec)
  ok, _ = common.admit(spec, datasets)
  if not ok:
    return {'outcome': 'skipped', 'reason': 'generator_reject'}
  src = models.read(spec.content)
  qt = aeq.Quantizer(spec.content)
  twin = aeq.Quantizer(spec.content)
  tried = build_recipe(rng, qt, src, twin)
  rec = qt.get_quantization_recipe()
  if any(t[0].startswith('observe_') for t in tried if t and isinstance(t[0], str)):
    ctx.count('histories_with_observations_between_updates')
    try:
      same = recipes.json_recipe(rec) == recipes.json_recipe(twin.get_quantization_recipe())
    except Exception:  # pylint: disable=broad-except
      same = True
    if not same:
      ctx.violation('export_depends_on_earlier_observations', {},
                    {'tried': tried, 'observed': recipes.json_recipe(rec),
                     'never_observed_twin': recipes.json_recipe(twin.get_quantization_recipe())})
  if not rec:
    return {'outcome': 'skipped', 'reason': 'empty_recipe'}
  ctx.count('recipes')
  feats = {'has_noq': any(str(getattr(e['algorithm_key'], 'value', e['algorithm_key'])) == 'no_quantize' for e in rec),
           'has_rule_without_weight_config': any('weight_tensor_config' not in e['op_config'] for e in rec),
           'noq_rule_carries_config': any(str(getattr(e['algorithm_key'], 'value', e['algorithm_key'])) == 'no_quantize'
                                          and 'weight_tensor_config' in e['op_config'] for e in rec)}
  try:
    js = json.loads(json.dumps(rec))
  except Exception as e:  # pylint: disable=broad-except
    ctx.violation('export_not_json_serialisable', feats, str(e)[:200])
    return {}
  ctx.key = common.digest(js)
  ctx.nontrivial = len(js) >= 2 or js[0]['regex'] != '.*' or js[0]['operation'] != '*'
  ctx.sample = {'recipe': js, 'ops': common.describe_model(spec.content, src)}
  detail = {'recipe': js, 'tried': tried}
  try:
    q2 = aeq.Quantizer(spec.content, copy.deepcopy(js))
  except Exception as e:  # pylint: disable=broad-except
    ctx.violation('reload_raised', dict(feats, exc=f'{type(e).__name__}: {str(e)[:60]}'), detail)
    return {}
  js2 = recipes.json_recipe(q2.get_quantization_recipe())
  if js2 != js:
    ctx.violation('reloaded_recipe_unequal', feats, dict(detail, reloaded=js2))
  # resolution
  q_ops = sorted(set(recipes.op_names_in(src) + ['FULLY_CONNECTED', 'TANH', 'CONV_2D', 'INPUT', 'OUTPUT', 'EMBEDDING_LOOKUP']))
  scopes = sorted({n + ';' for n in recipes.output_names(src)} | {'', 'zz;', 'm/fc_1;m/fc_2;', ';'.join(n for n in recipes.output_names(src)[:2]) + ';'})
  for o in q_ops:
    for s in scopes:
      ctx.count('queries')
      a = qt._recipe_manager.get_quantization_configs(OP(o), s)  # pylint: disable=protected-access
      b = q2._recipe_manager.get_quantization_configs(OP(o), s)  # pylint: disable=protected-access
      if a != b:
        ctx.violation('reloaded_recipe_resolves_differently', feats, dict(detail, op=o, scope=s, a=str(a)[:200], b=str(b)[:200]))
        break
    else:
      continue
    break
  # reproduce the model
  cal = None
  try:
    if qt.need_calibration:
      cal = common.calibrate_all(qt, spec, datasets)
  except Exception:  # pylint: disable=broad-except
    ctx.count('calibrate_raised')
    return {}
  outs = []
  for q in (qt, q2):
    try:
      outs.append(('ok', bytes(q.quantize(copy.deepcopy(cal)).quantized_model)))
    except Exception as e:  # pylint: disable=broad-except
      outs.append(('exc', type(e).__name__))
  if outs[0][0] == 'ok' and outs[1][0] == 'ok':
    ctx.count('byte_comparisons')
    if outs[0][1] != outs[1][1]:
      ctx.violation('reloaded_recipe_quantizes_to_different_bytes', feats, detail)
  elif outs[0][0] != outs[1][0]:
    ctx.violation('reloaded_recipe_quantize_outcome_differs', feats, dict(detail, outcomes=[o[:2] if o[0] == 'exc' else 'ok' for o in outs]))
  else:
    ctx.count('both_quantize_raised')
  # save() file
  if outs[0][0] == 'ok' and rng.random() < 0.3:
    d = os.path.join(os.path.dirname(os.path.dirname(os.path.dirname(os.path.abspath(__file__)))), '.work', f'c12_save_{os.getpid()}')
    shutil.rmtree(d, ignore_errors=True)
    os.makedirs(d)
    try:
      qt._result.save(d, 'm')  # pylint: disable=protected-access
      with open(os.path.join(d, 'm_recipe.json')) as fh:
        saved = json.load(fh)
      ctx.count('save_files')
      if saved != js:
        ctx.violation('saved_recipe_file_differs_from_export', feats, dict(detail, saved=saved))
      try:
        q3 = aeq.Quantizer(spec.content, os.path.join(d, 'm_recipe.json'))
        if recipes.json_recipe(q3.get_quantization_recipe()) != js:
          ctx.violation('saved_recipe_file_reloads_unequal', feats, detail)
      except Exception as e:  # pylint: disable=broad-except
        ctx.violation('saved_recipe_file_does_not_load', dict(feats, exc=type(e).__name__), detail)
    finally:
      shutil.rmtree(d, ignore_errors=True)
  return {}


def summarize(agg):
  st = agg['stats']
  inc = []
  if st.get('byte_comparisons', 0) == 0:
    inc.append('no byte comparison of quantize() outputs was reached')
  if st.get('shipped_files', 0) == 0:
    inc.append('shipped recipe files were not visited')
  if st.get('save_files', 0) == 0:
    inc.append('QuantizationResult.save was never exercised')
  return {'inconclusive': inc}
