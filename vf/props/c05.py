"""C05 -- stored quantized constants decode to within one step of the float originals."""
import numpy as np
from vf.gen import models, recipes
from vf.oracle import skeleton, resolve, decode
from vf.props import common, c03

LEVEL = 'exploration'
RULE = ('every rewritten constant of (a) the mixed-recipe graph workload and (b) a directed sweep of single-operator models '
        'with odd element counts / every legal weight axis (fc, conv, depthwise, transpose-conv, batch-matmul +-adj, embedding, '
        'constant operands of add/sub/mul) x 4/8-bit, symmetric/asymmetric, per-tensor/per-channel, float16.  The bytes in the '
        'OUTPUT flatbuffer are decoded by an independent decoder and compared element-wise with the constant read from the '
        'INPUT flatbuffer.  A unit is one rewritten constant; distinct by (dtype, shape, axis, source digest); non-trivial iff '
        'it has more than one element')
ASSUMPTIONS = ['bound: half a step when the config is symmetric, one step when asymmetric, plus 1e-6*|x| + 1e-6*step float32 epsilon',
               'bias: |q - b/s| <= 0.5 + |b/s|*2^-20, exempt when the code sits at the INT32/INT64 limit (saturated)',
               'decoder trusted: INT4 low nibble first, sign-extended']
TT = models.TT
VARIANTS = [v for k in ('FULLY_CONNECTED', 'CONV_2D', 'DEPTHWISE_CONV_2D', 'CONV_2D_TRANSPOSE', 'BATCH_MATMUL', 'EMBEDDING_LOOKUP')
            for v in models.SINGLE_OPS[k] if v != 'bmm_act'] + ['add_const', 'sub_const', 'mul_const',
                                                                  'bmm_const_lhs', 'bmm_const_lhs_adjx']   # constant as FIRST operand of BATCH_MATMUL


def plan(tier):
  return {'n_cases': 900 if tier == 'quick' else 18000, 'shards': 16}


def src_array(ms, t):
  raw = decode.raw(ms.buffers[t.buffer])
  return np.frombuffer(raw, dtype=np.float32).reshape(decode.shape_of(t))


def check_pair(ctx, spec, src, run, acc):
  errs, maps, ms, mo = skeleton.analyse(spec.content, run.out, ms=src)
  if [e for e in errs if not e[0].startswith('sig_')] or maps is None or any(m is None for m in maps):
    ctx.count('skeleton_broken_left_to_C02')
    return
  ref = recipes.reference_for(acc)
  base = {'rules': acc, 'ops': common.describe_model(spec.content, src)}
  done = set()
  for si, (a, b) in enumerate(zip(ms.subgraphs, mo.subgraphs)):
    mp = maps[si]
    producer_of = {int(o): op for op in b.operators for o in op.outputs}
    name = lambda t: a.tensors[int(t)].name.decode()
    for k, oa in enumerate(a.operators):
      ob = b.operators[mp.kept[k]]
      c = skeleton.code(ms, oa)
      opn = models.SUPPORTED_CODES.get(c)
      if opn is None:
        continue
      alg, cfg, tag = ref.resolve(opn, resolve.op_scope([name(o) for o in oa.outputs if int(o) != -1]))
      mode = c03.mode_of(alg, cfg)
      if mode == 'float':
        continue
      for pos, (t0, t1) in enumerate(zip(oa.inputs, ob.inputs)):
        t0, t1 = int(t0), int(t1)
        if t0 < 0:
          continue
        ta = a.tensors[t0]
        sb = ms.buffers[ta.buffer].data
        if ta.type != TT.FLOAT32 or sb is None or len(sb) == 0:
          continue
        # the stored constant: the operand itself, or the input of the DEQUANTIZE feeding it
        tb = b.tensors[t1]
        stored = tb
        if t1 != t0:
          p = producer_of.get(t1)
          if p is None or skeleton.code(mo, p) != models.BO.DEQUANTIZE:
            continue
          stored = b.tensors[int(p.inputs[0])]
        if stored.type == TT.FLOAT32:
          continue  # not rewritten for this consumer (C03 decides whether that is right)
        if (si, t0) in done:
          continue
        done.add((si, t0))
        x = src_array(ms, ta)
        raw = decode.raw(mo.buffers[stored.buffer])
        is_bias = opn in c03.BIAS_IDX and pos == c03.BIAS_IDX[opn]
        tname = decode.TYPE_NAME.get(stored.type)
        f = {'op': opn, 'mode': mode, 'dtype': tname, 'is_bias': is_bias, 'odd_count': bool(x.size % 2)}
        d = dict(base, tensor=name(t0), shape=list(x.shape))
        ctx.count('constants_checked')
        ctx.count(f'const:{tname}:{"bias" if is_bias else "weight" if opn in c03.WEIGHT_OPS else "operand"}')
        ctx.unit(common.digest([tname, list(x.shape), x]), nontrivial=x.size > 1)
        if raw is None or len(raw) != decode.expected_nbytes(stored):
          ctx.violation('stored_byte_length', f, dict(d, got=None if raw is None else len(raw), want=decode.expected_nbytes(stored)))
          continue
        if stored.type == TT.INT4:
          ctx.count('int4_odd_tail' if x.size % 2 else 'int4_even')
          if x.size % 2 and (np.frombuffer(raw, dtype=np.uint8)[-1] >> 4) != 0:
            ctx.violation('int4_padding_nibble_not_zero', f, d)
        if list(decode.shape_of(stored)) != list(x.shape):
          ctx.violation('stored_shape_changed', f, d)
          continue
        vals = decode.decode(stored, raw)
        ctx.count('elements_checked', int(x.size))
        if stored.type == TT.FLOAT16:
          want = x.astype(np.float16)
          if not np.array_equal(vals.view(np.uint16), want.view(np.uint16)):
            ctx.violation('float16_not_round_to_nearest', f, dict(d, n_bad=int(np.sum(vals.view(np.uint16) != want.view(np.uint16)))))
          if decode.qparams(stored) is not None:
            ctx.violation('float16_constant_has_parameters', f, d)
          continue
        qp = decode.qparams(stored)
        if qp is None:
          ctx.violation('integer_constant_without_parameters', f, d)
          continue
        sc, zp, axis = qp
        if sc.size > 1:
          ctx.count(f'per_axis:{opn}:axis{axis}')
          if axis >= x.ndim or x.shape[axis] != sc.size:
            ctx.violation('per_axis_length_mismatch', dict(f, axis=axis), d)
            continue
        if zp.size not in (sc.size,):
          ctx.violation('zero_point_length_mismatch', f, d)
          continue
        deq = decode.dequantize(vals, stored).astype(np.float64)
        shp = [1] * x.ndim
        if sc.size > 1:
          shp[axis] = sc.size
        step = sc.astype(np.float64).reshape(shp) if sc.size > 1 else float(sc[0])
        x64 = x.astype(np.float64)
        if is_bias:
          info = np.iinfo(decode.NP[stored.type])
          ratio = x64 / step
          sat = (vals.astype(np.int64) >= info.max) | (vals.astype(np.int64) <= info.min + 1)
          err = np.abs(vals.astype(np.float64) - ratio)
          tol = 0.5 + np.abs(ratio) * 2.0 ** -20 + 1e-6
          badm = (~sat) & (err > tol)
          ctx.count('bias_saturated_elements', int(sat.sum()))
          if np.any(badm):
            i = tuple(np.argwhere(badm)[0])
            ctx.violation('bias_not_round_of_bias_over_scale', f, dict(d, q=int(vals[i]), ratio=float(ratio[i])))
          continue
        tcfg = cfg.weight_tensor_config if opn in c03.WEIGHT_OPS else cfg.activation_tensor_config
        sym = bool(tcfg.symmetric) if tcfg is not None else bool(np.all(zp == 0))
        bound = (0.5 if sym and np.all(zp == 0) else 1.0)
        err = np.abs(deq - x64) / step
        slack = 1e-6 * np.abs(x64) / step + 1e-6
        ctx.observe_max('err_steps_sym' if bound == 0.5 else 'err_steps_asym', float(np.max(err - slack)) if err.size else 0.0)
        badm = err > bound * (1 + 1e-3) + slack
        if np.any(badm):
          i = tuple(np.argwhere(badm)[0])
          ctx.violation('decoded_value_too_far', dict(f, symmetric=sym, per_axis=bool(sc.size > 1)),
                        dict(d, x=float(x64[i]), decoded=float(deq[i]), err_steps=float(err[i]), n_bad=int(badm.sum()), axis=axis))
        if ctx.sample is None:
          ctx.sample = {'op': opn, 'mode': mode, 'dtype': tname, 'shape': list(x.shape), 'axis': axis if sc.size > 1 else None,
                        'max_err_steps': float(err.max()) if err.size else 0.0, 'rules': acc}


def run_case(ctx, case, rng):
  if case % 3 == 0:
    # directed sweep
    variant = VARIANTS[(case // 3) % len(VARIANTS)]
    spec = models.single_op_model(rng, variant, odd=True, wide=bool(rng.random() < 0.15), huge_w_p=(0.5 if rng.random() < 0.1 else 0.0))
    datasets = common.make_data(rng, spec)
    ok, _ = common.admit(spec, datasets)
    if not ok:
      return {'outcome': 'skipped', 'reason': 'generator_reject'}
    src = models.read(spec.content)
    ctx.count('directed_models')
    names = [n for n in recipes.GOOD if n != 'noq']
    for name in names:
      run = common.pipeline(spec, datasets, rules=[('.*', '*', name)])
      if run.phase == 'no_rule_accepted' or run.exc is not None:
        ctx.count('directed_raised_or_unaccepted')
        continue
      check_pair(ctx, spec, src, run, run.accepted)
    return {}
  seen = False
  for spec, src, datasets, lab, run, acc in common.graph_workload(
      ctx, case, rng, safe_regex=True, cfg_pool=recipes.GOOD, n_random=3, star_p=0.6):
    seen = True
    if run.exc is None:
      check_pair(ctx, spec, src, run, acc)
  if not seen:
    return {'outcome': 'skipped', 'reason': 'generator_reject'}
  return {}


def summarize(agg):
  st = agg['stats']
  inc = []
  for k in ('const:INT8:weight', 'const:INT4:weight', 'const:FLOAT16:weight', 'const:INT32:bias', 'const:INT64:bias',
            'const:INT8:operand', 'int4_odd_tail'):
    if st.get(k, 0) == 0:
      inc.append(f'{k} never checked')
  return {'inconclusive': inc}
