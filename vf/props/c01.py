"""C01 -- quantize() returns a well-formed, runtime-loadable model or raises."""
import os
import re
import numpy as np
from vf.gen import models, recipes, data as gdata
from vf.oracle import fbcheck, interp, decode
from vf.props import common

LEVEL = 'exploration'
RULE = ('random DAG / directed-template float models (1-3 subgraphs) x {6 shipped recipes, random accepted '
        'rule sequences over regex x selector x config} x calibration data classes; a unit is one '
        '(model, recipe) pair for which quantize() returned; distinct by digest of (graph structure, '
        'exported recipe); non-trivial iff at least one original tensor became quantized/float16 AND at '
        'least one QUANTIZE/DEQUANTIZE operator was inserted')
ASSUMPTIONS = ['LiteRT interpreter and flatbuffer bindings are the trusted runtime',
               'generated models are admitted only if the float interpreter runs them with finite outputs',
               'skip_checks / BLOCKWISE recipes excluded (documented as outside runtime support)']

def plan(tier):
  return {'n_cases': 1200 if tier == 'quick' else 24000, 'shards': 16}


def int16_census(mo):
  """Mechanism features of an output model used to attribute interpreter aborts."""
  BO = models.BO
  feats = {'int16_ops': [], 'has_int16': False, 'addsub_scale_ratio_beyond_kernel_limit': False}
  for sg in mo.subgraphs:
    for op in sg.operators:
      c = mo.operatorCodes[op.opcodeIndex].builtinCode
      ins = [sg.tensors[int(i)] for i in op.inputs if int(i) >= 0]
      if c in (BO.ADD, BO.SUB) and len(ins) == 2 and all(t.type in (models.TT.INT8, models.TT.INT16) for t in ins):
        # the runtime's ADD/SUB Prepare CHECK-fails (aborts) when 2*max(input scale) / (2^left_shift * output scale) >= 1
        qi = [decode.qparams(t) for t in ins]
        outs_ = [sg.tensors[int(o)] for o in op.outputs]
        qo = decode.qparams(outs_[0]) if outs_ else None
        if all(q is not None for q in qi) and qo is not None:
          left_shift = 15 if ins[0].type == models.TT.INT16 else 20
          if 2.0 * max(float(q[0][0]) for q in qi) / ((1 << left_shift) * float(qo[0][0])) >= 1.0:
            feats['addsub_scale_ratio_beyond_kernel_limit'] = True
      if any(t.type == models.TT.INT16 for t in ins):
        feats['has_int16'] = True
        nm = models.CODE_NAMES.get(c, '?')
        if nm not in feats['int16_ops']:
          feats['int16_ops'].append(nm)
  return feats


def interp_error_features(msg, mo):
  m = re.search(r'Node number (\d+) \((\w+)\) failed to (\w+)', msg)
  f = {'node_op': m.group(2) if m else None, 'stage': m.group(3) if m else None}
  norm = re.sub(r'\d+', 'N', msg.replace('\n', ' '))
  f['msg'] = norm[-220:]
  if m:
    # operand dtypes of the failing node: the node number is relative to the subgraph being prepared, so look for a
    # subgraph whose operator at that index has the reported type (several candidates: prefer one with integer operands)
    idx = int(m.group(1))
    cands = []
    for sg in mo.subgraphs:
      if idx < len(sg.operators):
        op = sg.operators[idx]
        if models.CODE_NAMES.get(mo.operatorCodes[op.opcodeIndex].builtinCode) == m.group(2):
          cands.append((sg, op))
    cands.sort(key=lambda c: -sum(1 for i in c[1].inputs if int(i) >= 0 and c[0].tensors[int(i)].type != models.TT.FLOAT32))
    if cands:
      sg, op = cands[0]
      f['node_in_types'] = [decode.TYPE_NAME.get(sg.tensors[int(i)].type) for i in op.inputs if int(i) >= 0]
      floor = False
      for o in op.outputs:
        t = sg.tensors[int(o)]
        qp = decode.qparams(t)
        if qp is not None and t.type in (models.TT.INT8, models.TT.INT16):
          levels = 255 if t.type == models.TT.INT8 else 65535
          if float(qp[0][0]) * levels <= 2.02e-4:
            floor = True
      f['node_out_range_is_floor'] = floor
      # is the bias scale the correctly rounded float32 product of input and weight scale (i.e. nothing better can be stored)?
      try:
        opn = m.group(2)
        pos = {'FULLY_CONNECTED': (0, 1, 2), 'CONV_2D': (0, 1, 2), 'DEPTHWISE_CONV_2D': (0, 1, 2), 'TRANSPOSE_CONV': (2, 1, 3)}.get(opn)
        if pos and len(op.inputs) > pos[2] and int(op.inputs[pos[2]]) >= 0:
          qin, qw, qb = (decode.qparams(sg.tensors[int(op.inputs[i])]) for i in pos)
          if qin is not None and qw is not None and qb is not None:
            import numpy as _np
            prod = _np.float64(qin[0][0]) * qw[0].astype(_np.float64)
            ulp = _np.spacing(prod.astype(_np.float32)).astype(_np.float64)
            f['bias_scale_is_rounded_product'] = bool(_np.all(_np.abs(qb[0].astype(_np.float64) - prod) <= ulp))
      except Exception:  # pylint: disable=broad-except
        pass
  return f


def check_returned(ctx, spec, run, label, datasets, src_model):
  """All C01 oracles on one returned model.  Returns parsed output model or None."""
  try:
    mo = models.read(run.out)
  except Exception as e:  # pylint: disable=broad-except
    ctx.violation('unparseable', {'exc': common.exc_signature(e)}, {'recipe': run.recipe})
    return None
  errs = fbcheck.check(run.out, mo)
  kinds = sorted({e[0] for e in errs})
  for k in kinds:
    ex = next(e for e in errs if e[0] == k)
    ctx.violation('malformed', {'error': k, 'recipe_label': label},
                  {'example': ex, 'recipe': run.recipe, 'ops': common.describe_model(spec.content, src_model),
                   'n_errors': len(errs)})
  nq, ndq = common.count_inserted(src_model, mo)
  ctx.count('inserted_quantize', max(nq, 0))
  ctx.count('inserted_dequantize', max(ndq, 0))
  if errs:
    ctx.count('returned_malformed')
    return mo
  census = int16_census(mo)
  info = {'recipe_label': label, 'census': census, 'recipe': run.recipe, 'model_sha': common.sha(run.out),
          'ops': common.describe_model(spec.content, src_model)}

  from vf.run import abortinfo, driver
  info['model_path'], info['feeds_path'] = abortinfo.save(
      os.path.join(driver.ROOT, '.work', 'risky'), run.out, {s['key']: datasets[s['key']][0] for s in spec.signatures})

  def go():
    for s in spec.signatures:
      key = s['key']
      stage = 'allocate'
      try:
        it = interp.make(run.out)
        it.allocate_tensors()
        stage = 'invoke'
        r = it.get_signature_runner(key)
        feed = {}
        for arg, d in r.get_input_details().items():
          x = datasets[key][0][arg]
          sc = d['quantization_parameters']['scales']
          if len(sc) and np.issubdtype(d['dtype'], np.integer) and x.dtype.kind == 'f':
            zp = d['quantization_parameters']['zero_points']
            ii = np.iinfo(d['dtype'])
            x = np.clip(np.rint(x.astype(np.float64) / float(sc[0])) + int(zp[0]), ii.min, ii.max).astype(d['dtype'])
          feed[arg] = x
        r(**feed)
        ctx.count('interp_ok')
      except Exception as e:  # pylint: disable=broad-except
        f = interp_error_features(str(e), mo)
        f['phase'] = stage
        f['exc'] = type(e).__name__
        ctx.violation('interpreter_error', f, {'recipe': run.recipe, 'label': label,
                                                'ops': common.describe_model(spec.content, src_model),
                                                'message': str(e)[-400:]})
        ctx.count('interp_error')
        return
  ctx.risky('interp.allocate_invoke', go, info)
  return mo


def crash_to_violation(open_call, crash):
  if not open_call or not str(open_call.get('what', '')).startswith('interp.'):
    return None
  from vf.run import abortinfo, driver
  info = open_call.get('info') or {}
  f = dict(info.get('census') or {})
  f['rc'] = crash['rc']
  f['stage'] = open_call.get('what')
  f.update(abortinfo.attribute(info.get('model_path'), info.get('feeds_path'), driver.PY, driver.child_env()))
  return {'kind': 'process_abort', 'features': f,
          'detail': {'recipe': info.get('recipe'), 'ops': info.get('ops'), 'label': info.get('recipe_label'),
                     'stderr_tail': crash['stderr_tail'][-600:]}}


def tensor_changed(src_model, mo):
  n = 0
  for a, b in zip(src_model.subgraphs, mo.subgraphs):
    for ta, tb in zip(a.tensors, b.tensors):
      if ta.type != tb.type:
        n += 1
  return n


def blockwise_case(ctx, case, rng):
  """Directed: FULLY_CONNECTED on [batch, sequence, features] with / without bias and fused activation, replaced by the block-wise
  emulation subgraph (skip_checks recipe).  Only the structural and interpreter oracles of C01 apply to the replaced graph."""
  def f(g, r_):
    x = g.inp((1, int(r_.integers(1, 4)), 8))
    y = g.fc(x, int(r_.choice([4, 6])), bias=bool(r_.random() < 0.7), act=int(r_.choice([0, 1, 1, 3])), keep=True)
    return [g.fc(y, 3, keep=True)] if r_.random() < 0.5 else [y]
  spec = models._single(rng, f, 'blockwise_fc')
  # converter-style empty quantization tables on every tensor (the emulation writes into the weight's table)
  spec = models.shuffle_indices(spec, rng, tensors=False, buffers=False, signatures=False, empty_quant=True)
  datasets = common.make_data(rng, spec)
  ok, _ = common.admit(spec, datasets)
  if not ok:
    return {'outcome': 'skipped', 'reason': 'generator_reject'}
  src = models.read(spec.content)
  rules = [('.*', 'FULLY_CONNECTED', str(rng.choice(['x_blk8wo_b2', 'x_blk8_b2'])))]
  run = common.pipeline(spec, datasets, rules=rules)
  ctx.count('blockwise_directed_cases')
  if run.phase == 'no_rule_accepted' or run.exc is not None:
    ctx.count('blockwise_directed_raised')
    return {}
  ctx.count('returned')
  ctx.count('blockwise_directed_returned')
  mo = check_returned(ctx, spec, run, 'rules:blockwise', datasets, src)
  ctx.unit(common.model_key(spec, run.recipe), nontrivial=mo is not None)
  return {}


def bmm_const_lhs_case(ctx, case, rng):
  """Directed: BATCH_MATMUL whose FIRST operand is the constant (KF-BMM-CONST-LHS-QUANTIZED-AS-WEIGHT keeps being observed here)."""
  spec = models.single_op_model(rng, 'bmm_const_lhs' if rng.random() < 0.5 else 'bmm_const_lhs_adjx')
  datasets = common.make_data(rng, spec)
  ok, _ = common.admit(spec, datasets)
  if not ok:
    return {'outcome': 'skipped', 'reason': 'generator_reject'}
  src = models.read(spec.content)
  rules = [('.*', '*', str(rng.choice(['drq8_cw', 'drq8_tw', 'srq8a_tw', 'srq16_tw', 'wo8a_cw'])))]
  run = common.pipeline(spec, datasets, rules=rules)
  ctx.count('bmm_const_lhs_directed_cases')
  if run.phase == 'no_rule_accepted' or run.exc is not None:
    return {}
  ctx.count('returned')
  mo = check_returned(ctx, spec, run, 'rules:' + recipes.mode_of(rules[0][2]), datasets, src)
  ctx.unit(common.model_key(spec, run.recipe), nontrivial=mo is not None)
  return {}


def run_case(ctx, case, rng):
  if case % 32 == 17:
    return blockwise_case(ctx, case, rng)
  if case % 64 == 50:
    return bmm_const_lhs_case(ctx, case, rng)
  seen = False
  # the structural statement covers every accepted recipe, the advanced block-wise ones (skip_checks, operator replacement) included
  pool = recipes.GOOD + (['x_blk8wo_b2', 'x_blk8_b2'] * 2 if case % 4 == 1 else [])
  for spec, src, datasets, lab, run, acc in common.graph_workload(ctx, case, rng, safe_regex=False, cfg_pool=pool):
    seen = True
    if run.exc is not None:
      continue
    mo = check_returned(ctx, spec, run, lab, datasets, src)
    if mo is None:
      continue
    nq, ndq = common.count_inserted(src, mo)
    changed = tensor_changed(src, mo)
    ctx.unit(common.model_key(spec, run.recipe), nontrivial=(changed > 0 and nq + ndq > 0))
    if ctx.sample is None and changed and nq + ndq:
      ctx.sample = {'ops': common.describe_model(spec.content, src), 'label': lab,
                    'recipe': run.recipe, 'inserted_q_dq': [nq, ndq],
                    'tensors_retyped': changed, 'classes': sorted(spec.classes)}
  if not seen:
    return {'outcome': 'skipped', 'reason': 'generator_reject'}
  return {}


def summarize(agg):
  st = agg['stats']
  inc = []
  if st.get('returned', 0) < 50:
    inc.append(f"only {st.get('returned', 0)} returns observed")
  if st.get('inserted_quantize', 0) + st.get('inserted_dequantize', 0) == 0:
    inc.append('no QUANTIZE/DEQUANTIZE insertion was ever observed')
  if st.get('interp_ok', 0) == 0:
    inc.append('interpreter oracle never completed')
  return {'inconclusive': inc}
