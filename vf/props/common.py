"""Shared workload plumbing for the property modules: the calibrate->quantize
pipeline driven through the public API, with the API-boundary recorder
(deep digests of caller-owned arguments before/after each call)."""
import copy
import hashlib
import json
import re
import numpy as np
from ai_edge_quantizer import quantizer as aeq_quantizer
from vf.gen import models, recipes
from vf.oracle import interp


# ------------------------------------------------------------------ digests

def _canon(o, h):
  if isinstance(o, np.ndarray):
    h.update(b'A' + str(o.dtype).encode() + str(o.shape).encode() + np.ascontiguousarray(o).tobytes())
  elif isinstance(o, (np.generic,)):
    h.update(b'G' + str(o.dtype).encode() + o.tobytes())
  elif isinstance(o, dict):
    h.update(b'D%d' % len(o))
    for k in sorted(o, key=str):
      h.update(b'K' + str(k).encode())
      _canon(o[k], h)
  elif isinstance(o, (list, tuple)):
    h.update(b'L%d' % len(o))
    for x in o:
      _canon(x, h)
  elif isinstance(o, (bytes, bytearray)):
    h.update(b'B' + bytes(o))
  elif o is None:
    h.update(b'N')
  else:
    h.update(b'S' + type(o).__name__.encode() + repr(o).encode())


def digest(o):
  h = hashlib.sha256()
  _canon(o, h)
  return h.hexdigest()[:20]


def sha(b):
  return hashlib.sha256(bytes(b)).hexdigest()[:16]


# ------------------------------------------------------------------ exceptions

def exc_signature(e):
  """Exception class + message with tensor names / numbers normalised."""
  msg = str(e)
  msg = re.sub(r"b?'[^']*'", 'T', msg)
  msg = re.sub(r'[\w/;.]*\w+[_/]\d+[\w/;.]*', 'T', msg)
  msg = re.sub(r'\d+(\.\d+)?', 'N', msg)
  return f'{type(e).__name__}: {msg[:160]}'


# ------------------------------------------------------------------ pipeline

class Run:
  """One calibrate()+quantize() execution observed at the API boundary."""

  def __init__(self):
    self.accepted = None     # accepted rules [(regex, selector, cfg name)] or None for raw recipes
    self.recipe = None       # JSON recipe as exported before quantize
    self.cal = None          # deep copy of calibration result given to quantize()
    self.out = None          # bytes
    self.exc = None          # exception object
    self.phase = None        # 'load' | 'calibrate' | 'quantize'
    self.mutations = []      # caller-owned objects whose digest changed
    self.need_cal = False
    self.qt = None


def make_data(rng, spec, n=None, classes=('normal',)):
  from vf.gen import data
  return {s['key']: data.dataset(rng, s, n, classes) for s in spec.signatures}


def admit(spec, datasets):
  for s in spec.signatures:
    for x in datasets[s['key']]:
      ok, why = interp.admit(spec.content, s, x)
      if not ok:
        return False, why
  return True, ''


def calibrate_all(qt, spec, datasets, cal=None):
  for s in spec.signatures:
    key = s['key'] if len(spec.signatures) > 1 else None
    cal = qt.calibrate(datasets[s['key']], signature_key=key, previous_calibration_result=cal)
  return cal


def pipeline(spec, datasets, rules=None, recipe=None, cal=None, warm_rules=None, warm_other=False):
  """Runs the public API.  Exactly one of rules / recipe is given.  warm_rules: rules applied, calibrated and quantized on the SAME
  Quantizer first (outcome ignored) -- a history that must not matter when `rules` then replace them."""
  r = Run()
  content = spec.content
  d_model = digest(content)
  d_data = digest(datasets)
  try:
    if recipe is not None:
      d_rec = digest(recipe)
      r.phase = 'load'
      qt = aeq_quantizer.Quantizer(content, recipe)
      if digest(recipe) != d_rec:
        r.mutations.append('recipe')
    else:
      qt = aeq_quantizer.Quantizer(content)
      other = None
      if warm_rules and warm_other:
        # ANOTHER live Quantizer on the same model is configured first and quantized just before this one quantizes
        other = aeq_quantizer.Quantizer(content)
        try:
          if not recipes.apply_rules(other, warm_rules):
            other = None
        except Exception:  # pylint: disable=broad-except
          other = None
      elif warm_rules:
        try:
          if recipes.apply_rules(qt, warm_rules):
            qt.quantize(calibrate_all(qt, spec, datasets) if qt.need_calibration else None)
        except Exception:  # pylint: disable=broad-except
          pass
      r.accepted = recipes.apply_rules(qt, rules)
      if other is not None:
        try:
          other.quantize(calibrate_all(other, spec, datasets) if other.need_calibration else None)
        except Exception:  # pylint: disable=broad-except
          pass
      if not r.accepted:
        r.phase = 'no_rule_accepted'
        return r
    r.qt = qt
    r.recipe = recipes.json_recipe(qt.get_quantization_recipe())
    r.need_cal = bool(qt.need_calibration)
    if cal is None and r.need_cal:
      r.phase = 'calibrate'
      cal = calibrate_all(qt, spec, datasets)
    r.cal = copy.deepcopy(cal)
    d_cal = digest(cal)
    r.phase = 'quantize'
    res = qt.quantize(cal)
    r.out = bytes(res.quantized_model)
    if digest(cal) != d_cal:
      r.mutations.append('calibration_result')
    r.phase = 'done'
  except Exception as e:  # pylint: disable=broad-except
    r.exc = e
  if digest(content) != d_model:
    r.mutations.append('model_bytes')
  if digest(datasets) != d_data:
    r.mutations.append('calibration_data')
  return r


def model_key(spec, extra=None):
  """Digest of the model's structure (ops, wiring, shapes) ignoring constant values."""
  m = models.read(spec.content)
  parts = []
  for sg in m.subgraphs:
    parts.append([(m.operatorCodes[op.opcodeIndex].builtinCode, [int(i) for i in op.inputs],
                   [int(o) for o in op.outputs]) for op in sg.operators])
    parts.append([[int(d) for d in (t.shape if t.shape is not None else [])] for t in sg.tensors])
    parts.append([int(i) for i in sg.outputs])
  return hashlib.sha256(json.dumps([parts, extra], default=str).encode()).hexdigest()[:16]


def describe_model(content, m=None):
  m = m or models.read(content)
  out = []
  for sg in m.subgraphs:
    out.append([models.CODE_NAMES.get(m.operatorCodes[op.opcodeIndex].builtinCode, '?')
                for op in sg.operators])
  return out


def count_inserted(src_model, out_model):
  """(n_quantize, n_dequantize) operators added."""
  BO = models.BO
  def cnt(m, c):
    return sum(1 for sg in m.subgraphs for op in sg.operators
               if m.operatorCodes[op.opcodeIndex].builtinCode == c)
  return (cnt(out_model, BO.QUANTIZE) - cnt(src_model, BO.QUANTIZE),
          cnt(out_model, BO.DEQUANTIZE) - cnt(src_model, BO.DEQUANTIZE))


# ------------------------------------------------------------------ shared graph workload

_SHIPPED = None


def shipped_list():
  global _SHIPPED
  if _SHIPPED is None:
    _SHIPPED = list(recipes.shipped_all().items())
  return _SHIPPED


DATA_MIX = [('normal',), ('normal', 'scaled'), ('normal', 'scaled', 'positive', 'negative', 'zero', 'spike', 'tiny', 'huge'),
            ('positive',), ('zero', 'normal'), ('spike',)]


def graph_workload(ctx, case, rng, multi_sub_p=0.15, safe_regex=True, cfg_pool=None, n_random=2,
                   shipped=True, data_mix=None, rules_as_shipped=True, star_p=0.5, fanout_p=0.1, **model_kw):
  """Yields (spec, src_model, datasets, label, run, accepted_rules) per recipe tried.

  accepted_rules is the rule list in (regex, selector, cfg-name) form -- also for
  shipped recipes (their catalogue equivalent), so that oracles can resolve them.
  """
  fan = None
  if fanout_p and rng.random() < fanout_p:
    spec, fan = models.t_fanout(rng)
  else:
    if getattr(ctx, 'tier', 'quick') == 'thorough' and 'n_ops' not in model_kw and rng.random() < 0.3:
      model_kw = dict(model_kw, n_ops=int(rng.integers(9, 21)))   # deeper graphs in the thorough tier
      ctx.count('deep_graphs')
    spec = models.model_for_case(rng, multi_sub_p=multi_sub_p, **model_kw)
  mix = data_mix or DATA_MIX
  cls = mix[int(rng.integers(len(mix)))]
  datasets = make_data(rng, spec, classes=cls)
  ok, why = admit(spec, datasets)
  if not ok:
    ctx.count('generator_reject')
    ctx.count('generator_reject:' + re.sub(r'\d+', 'N', why)[-70:])
    return
  src = models.read(spec.content)
  for c in spec.classes:
    ctx.count('class:' + c)
  ctx.count('subgraphs:%d' % len(src.subgraphs))
  todo = []
  if shipped:
    name, rec = shipped_list()[case % len(shipped_list())]
    todo.append(('shipped:' + name, None, rec, recipes.SHIPPED_AS_RULES[name]))
  for _ in range(n_random):
    if fan:
      # every consumer of the fan-out tensor gets its own name-targeted rule -> up to k consumer groups on one tensor
      pool = [c for c in (cfg_pool or recipes.GOOD) if c in ('srq8a_cw', 'srq8s_cw', 'srq16_cw', 'srq8a_tw', 'srq16_tw', 'drq8_cw', 'wo8a_cw', 'noq')] or list(cfg_pool)
      rr = [(re.escape(out_name), sel, str(rng.choice(pool))) for sel, out_name in fan if rng.random() < 0.9]
      if rng.random() < 0.3:
        rr.insert(0, ('.*', '*', str(rng.choice(pool))))
      todo.append(('rules', rr, None, None))
      continue
    todo.append(('rules', recipes.random_rules(rng, src, safe_regex=safe_regex, cfg_pool=cfg_pool, star_p=star_p), None, None))
  for label, rules, recipe, as_rules in todo:
    run = pipeline(spec, datasets, rules=rules, recipe=recipe)
    if run.phase == 'no_rule_accepted':
      ctx.count('no_rule_accepted')
      continue
    acc = as_rules if recipe is not None else run.accepted
    lab = label if recipe is not None else 'rules:' + '+'.join(sorted({recipes.mode_of(a[2]) for a in acc}))
    if run.exc is not None:
      ctx.count('raised')
      ctx.count('raised:' + exc_signature(run.exc)[:90])
    else:
      ctx.count('returned')
      ctx.count('returned:' + lab.split(':')[0])
    yield spec, src, datasets, lab, run, acc


def risky_info(run, spec, datasets, info=None):
  """call-event info with the model and inputs saved for gdb attribution of an abort (see vf/run/abortinfo.py)."""
  import os
  from vf.run import abortinfo, driver
  from vf.props import c01
  info = dict(info or {})
  try:
    info['census'] = c01.int16_census(models.read(run.out))
    info['recipe'] = run.recipe
    info['ops'] = describe_model(spec.content)
    info['model_path'], info['feeds_path'] = abortinfo.save(
        os.path.join(driver.ROOT, '.work', 'risky'), run.out, {s['key']: datasets[s['key']][0] for s in spec.signatures})
  except Exception:  # pylint: disable=broad-except
    pass
  return info


def has_hybrid_tensorwise_dwconv(content):
  """Mechanism of the open finding KF-DWCONV-DRQ-TENSORWISE, read off the flatbuffer: a DEPTHWISE_CONV_2D with float input and an
  int8 filter carrying ONE scale.  The hybrid kernel indexes a per-channel scale array, so it reads past the single scale:
  its output depends on whatever follows in memory and is not reproducible between interpreter instances."""
  m = models.read(content)
  for sg in m.subgraphs:
    for op in sg.operators:
      if m.operatorCodes[op.opcodeIndex].builtinCode != models.BO.DEPTHWISE_CONV_2D:
        continue
      x, w = sg.tensors[int(op.inputs[0])], sg.tensors[int(op.inputs[1])]
      q = w.quantization
      if x.type == models.TT.FLOAT32 and w.type == models.TT.INT8 and q is not None and q.scale is not None and len(q.scale) == 1:
        return True
  return False
