"""C03 -- each op runs in exactly the mode its recipe rule selected; others are untouched."""
import numpy as np
from vf.gen import models, recipes
from vf.oracle import skeleton, resolve, decode
from vf.props import common

LEVEL = 'exploration'
RULE = ('C01 workload with mixed recipes (1-3 rules over .*/substring/prefix regexes x selector x all catalogue configs incl. '
        'unsupported ones, float16, no_quantize); for every original operator the reference resolver gives the expected mode '
        'and every operand actually read/written is checked for dtype, parameters and (unselected ops) constant bytes; '
        'inserted QUANTIZE/DEQUANTIZE ops are checked against their neighbours.  A unit is one returned (model, recipe) pair; '
        'distinct by (graph structure, recipe); non-trivial iff at least two different modes (incl. float) are expected in it')
ASSUMPTIONS = ['"supports" is read from the declared JSON policy by an independent unroller (vf/oracle/policy.py); C13 checks that it agrees with the library on the whole lattice',
               'regexes restricted to forms on which every scope encoding agrees (regex semantics is C10/C11)',
               'cases whose skeleton is already broken are attributed to C02, not C03',
               'a graph input nobody consumes is unconstrained; a runtime weight operand is float under weight-only/dynamic-range']
TT = models.TT
BO = models.BO
ACT = {8: TT.INT8, 16: TT.INT16}
WT = {4: TT.INT4, 8: TT.INT8}
WEIGHT_OPS = {'FULLY_CONNECTED', 'CONV_2D', 'BATCH_MATMUL', 'EMBEDDING_LOOKUP', 'DEPTHWISE_CONV_2D', 'CONV_2D_TRANSPOSE'}
BIAS_IDX = {'FULLY_CONNECTED': 2, 'CONV_2D': 2, 'DEPTHWISE_CONV_2D': 2, 'CONV_2D_TRANSPOSE': 3}
FP16_WEIGHT_IDX = {'FULLY_CONNECTED': 1, 'CONV_2D': 1, 'DEPTHWISE_CONV_2D': 1, 'CONV_2D_TRANSPOSE': 1, 'EMBEDDING_LOOKUP': 1}
# operands that are indices/shapes/axes by position (never quantized whatever their dtype)
INDEX_OPERANDS = {'EMBEDDING_LOOKUP': {0}, 'RESHAPE': {1}, 'TRANSPOSE': {1}, 'STRIDED_SLICE': {1, 2, 3}, 'MEAN': {1},
                  'SPLIT': {0}, 'CONV_2D_TRANSPOSE': {0}}


def plan(tier):
  return {'n_cases': 1200 if tier == 'quick' else 20000, 'shards': 16}


def mode_of(alg, cfg):
  if alg == resolve.NOQ:
    return 'float'
  if alg == recipes.FLOATCAST:
    return 'fp16'
  if cfg.compute_precision == recipes.CP.INTEGER:
    return 'srq' if cfg.activation_tensor_config is not None else 'drq'
  return 'wo'


def has_params(t):
  return decode.qparams(t) is not None


def check_pair(ctx, spec, src, run, acc):
  """Returns number of distinct modes expected, or None when the skeleton is broken."""
  errs, maps, ms, mo = skeleton.analyse(spec.content, run.out, ms=src)
  if [e for e in errs if not e[0].startswith('sig_')] or maps is None or any(m is None for m in maps):
    ctx.count('skeleton_broken_left_to_C02')
    return None
  ref = recipes.reference_for(acc, declared=True)
  modes_seen = set()
  detail_base = {'rules': acc, 'ops': common.describe_model(spec.content, src)}

  def bad(kind, feats, **d):
    ctx.violation(kind, feats, dict(detail_base, **d))

  for si, (a, b) in enumerate(zip(ms.subgraphs, mo.subgraphs)):
    mp = maps[si]
    is_const = lambda t: ms.buffers[a.tensors[t].buffer].data is not None and len(ms.buffers[a.tensors[t].buffer].data) > 0
    producer_of = {int(o): op for op in b.operators for o in op.outputs}
    name = lambda t: a.tensors[int(t)].name.decode()
    consumed = {int(i) for op in a.operators for i in op.inputs}
    # ---- virtual INPUT / OUTPUT operators
    in_alg, in_cfg, _ = ref.resolve('INPUT', resolve.op_scope([name(t) for t in a.inputs]))
    out_alg, out_cfg, _ = ref.resolve('OUTPUT', resolve.op_scope([]))
    for kind, la, lb, alg, cfg in (('graph_input', a.inputs, b.inputs, in_alg, in_cfg),
                                   ('graph_output', a.outputs, b.outputs, out_alg, out_cfg)):
      m = mode_of(alg, cfg)
      for pos, (t0, t1) in enumerate(zip(la, lb)):
        t0, t1 = int(t0), int(t1)
        if kind == 'graph_input' and t0 not in consumed:
          continue
        ta, tb = a.tensors[t0], b.tensors[t1]
        exp = ACT[cfg.activation_tensor_config.num_bits] if (m == 'srq' and ta.type == TT.FLOAT32) else ta.type
        ctx.count('operands')
        ctx.count('io_mode:' + m)
        if tb.type != exp:
          bad('operand_dtype', {'mode': m, 'operand': kind}, subgraph=si, pos=pos,
              got=decode.TYPE_NAME.get(tb.type), want=decode.TYPE_NAME.get(exp))
    # ---- original operators
    for k, oa in enumerate(a.operators):
      ob = b.operators[mp.kept[k]]
      c = skeleton.code(ms, oa)
      opn = models.SUPPORTED_CODES.get(c)
      if opn is None:
        alg, cfg = resolve.NOQ, None
      else:
        alg, cfg, _ = ref.resolve(opn, resolve.op_scope([name(o) for o in oa.outputs if int(o) != -1]))
      mode = mode_of(alg, cfg)
      modes_seen.add(mode)
      ctx.count('mode:' + mode)
      ctx.count(f'op_mode:{opn or "OTHER"}:{mode}')
      for kind, la, lb in (('in', oa.inputs, ob.inputs), ('out', oa.outputs, ob.outputs)):
        for pos, (t0, t1) in enumerate(zip(la, lb)):
          t0, t1 = int(t0), int(t1)
          if t0 == -1:
            continue
          ta, tb = a.tensors[t0], b.tensors[t1]
          ctx.count('operands')
          const = is_const(t0)
          f = {'mode': mode, 'operand': kind, 'op': opn or models.CODE_NAMES.get(c, str(c))}
          is_index = kind == 'in' and opn in INDEX_OPERANDS and pos in INDEX_OPERANDS[opn]
          if ta.type != TT.FLOAT32 or is_index:
            exp = ('same', ta.type)
            ctx.count('non_float_operands')
          elif mode == 'float':
            exp = ('same', TT.FLOAT32)
          elif mode == 'srq':
            abits = cfg.activation_tensor_config.num_bits
            if kind == 'in' and const and opn in BIAS_IDX and pos == BIAS_IDX[opn]:
              exp = ('type', TT.INT64 if abits == 16 else TT.INT32)
            elif kind == 'in' and const and opn in WEIGHT_OPS:
              exp = ('type', WT[cfg.weight_tensor_config.num_bits])
            else:
              exp = ('type', ACT[abits])
          else:  # wo / fp16 / drq
            is_weight = (kind == 'in' and const and opn in WEIGHT_OPS
                         and not (opn in BIAS_IDX and pos == BIAS_IDX[opn]))
            if mode == 'fp16':
              is_weight = is_weight and pos == FP16_WEIGHT_IDX.get(opn, 1)
            if not is_weight:
              exp = ('same', TT.FLOAT32)
            elif mode == 'drq':
              exp = ('type', WT[cfg.weight_tensor_config.num_bits])
            else:
              exp = ('dq_of', TT.FLOAT16 if mode == 'fp16' else WT[cfg.weight_tensor_config.num_bits])
          if exp[0] in ('same', 'type'):
            if tb.type != exp[1]:
              bad('operand_dtype', f, subgraph=si, op_index=k, pos=pos, tensor=name(t0),
                  got=decode.TYPE_NAME.get(tb.type), want=decode.TYPE_NAME.get(exp[1]))
            elif exp[0] == 'type' and exp[1] != TT.FLOAT16 and not has_params(tb):
              bad('quantized_operand_without_parameters', f, subgraph=si, op_index=k, pos=pos, tensor=name(t0))
            if exp[0] == 'same':
              if t1 != t0 and tb.type == ta.type and skeleton.code(mo, producer_of[t1]) in skeleton.QDQ and ta.type != TT.FLOAT32:
                bad('non_float_operand_converted', f, subgraph=si, op_index=k, pos=pos)
              if const and t1 == t0:
                ctx.count('untouched_constants_compared')
                if decode.raw(ms.buffers[ta.buffer]) != decode.raw(mo.buffers[tb.buffer]):
                  bad('constant_bytes_changed', f, subgraph=si, op_index=k, pos=pos, tensor=name(t0))
                if has_params(tb) and not has_params(ta):
                  bad('unselected_constant_annotated', f, subgraph=si, op_index=k, pos=pos, tensor=name(t0))
              if ta.type != TT.FLOAT32 and has_params(tb):
                bad('non_float_operand_annotated', f, subgraph=si, op_index=k, pos=pos, tensor=name(t0))
          else:
            p = producer_of.get(t1)
            ok = (tb.type == TT.FLOAT32 and p is not None and skeleton.code(mo, p) == BO.DEQUANTIZE
                  and b.tensors[int(p.inputs[0])].type == exp[1])
            if ok:
              srct = b.tensors[int(p.inputs[0])]
              cb = mo.buffers[srct.buffer].data
              if cb is None or len(cb) == 0:
                ok = False
              elif exp[1] != TT.FLOAT16 and not has_params(srct):
                ok = False
            if not ok:
              bad('weight_not_through_dequantize_of_constant', f, subgraph=si, op_index=k, pos=pos, tensor=name(t0),
                  got=decode.TYPE_NAME.get(tb.type))
    # ---- inserted operators convert between what their neighbours require
    for oi in mp.inserted:
      op = b.operators[oi]
      c = skeleton.code(mo, op)
      ti, to = b.tensors[int(op.inputs[0])], b.tensors[int(op.outputs[0])]
      ctx.count('inserted_ops_checked')
      if c == BO.QUANTIZE:
        if to.type not in (TT.INT8, TT.INT16) or not has_params(to):
          bad('inserted_quantize_output', {'out': decode.TYPE_NAME.get(to.type)}, subgraph=si, op=oi)
        if ti.type not in (TT.FLOAT32, TT.INT8, TT.INT16) or (ti.type != TT.FLOAT32 and not has_params(ti)):
          bad('inserted_quantize_input', {'in': decode.TYPE_NAME.get(ti.type)}, subgraph=si, op=oi)
      if c == BO.DEQUANTIZE:
        if to.type != TT.FLOAT32 or ti.type not in (TT.INT4, TT.INT8, TT.INT16, TT.FLOAT16):
          bad('inserted_dequantize_types', {'in': decode.TYPE_NAME.get(ti.type), 'out': decode.TYPE_NAME.get(to.type)}, subgraph=si, op=oi)
        elif ti.type != TT.FLOAT16 and not has_params(ti):
          bad('inserted_dequantize_input_without_parameters', {}, subgraph=si, op=oi)
  return len(modes_seen)


def run_case(ctx, case, rng):
  seen = False
  for spec, src, datasets, lab, run, acc in common.graph_workload(
      ctx, case, rng, safe_regex=True, cfg_pool=list(recipes.CFGS) + ['fp16'] * 3, n_random=3, star_p=0.35):
    seen = True
    if run.exc is not None:
      continue
    n_modes = check_pair(ctx, spec, src, run, acc)
    if n_modes is None:
      continue
    ctx.unit(common.model_key(spec, run.recipe), nontrivial=n_modes >= 2)
    if ctx.sample is None and n_modes >= 2:
      ctx.sample = {'ops': common.describe_model(spec.content, src), 'rules': acc, 'modes_expected': n_modes}
  if not seen:
    return {'outcome': 'skipped', 'reason': 'generator_reject'}
  return {}


def summarize(agg):
  st = agg['stats']
  inc = []
  for m in ('float', 'srq', 'drq', 'wo', 'fp16'):
    if st.get('mode:' + m, 0) == 0:
      inc.append(f'mode {m} was never expected')
  if st.get('inserted_ops_checked', 0) == 0:
    inc.append('no inserted operator checked')
  matrix = {k[len('op_mode:'):]: v for k, v in st.items() if k.startswith('op_mode:')}
  return {'inconclusive': inc, 'coverage': {'op_mode_matrix': matrix}}
