"""C15 -- shared constants are quantized consistently or the request is rejected."""
import re
import numpy as np
from ai_edge_quantizer import quantizer as aeq, qtyping
from vf.gen import models, recipes
from vf.monitors import mech
from vf.oracle import skeleton, decode
from vf.props import common

LEVEL = 'exploration'
OP = qtyping.TFLOperationName
TT = models.TT
BO = models.BO
RULE = ('tied-constant templates -- one constant tensor with 2-4 consumers, 2-3 tensors on one buffer within a subgraph, the same buffer '
        'in 2-3 subgraphs/signatures, embedding table tied to a fully-connected weight -- x every consumer gets its own name-targeted rule '
        'drawn from 12 settings (none, no_quantize, weight-only 4/8 sym/asym, dynamic 4/8 tensor/channel-wise, static 8/16, float16): '
        'equal, different and missing assignments.  quantize() must raise, or return a model in which all tensors on a buffer agree with '
        'the stored bytes, every consumer decodes its actual operand to within one step of the source constant, and the buffer-write '
        'monitor saw one content per buffer.  distinct by (sharing kind, k, settings tuple); non-trivial iff the sharers get at least two '
        'different settings or at least one quantizing setting')
ASSUMPTIONS = ['a raise is an acceptable outcome', 'float16 sharers: |fp16(x)-x| <= 2^-10|x| + 6e-8 counts as "within one step"']
SETTINGS = [None, 'noq', 'wo8a_cw', 'wo8s_tw', 'wo8s_cw', 'wo4s_cw', 'drq8_cw', 'drq8_tw', 'drq4_cw', 'srq8a_cw', 'srq8a_tw', 'srq16_cw', 'fp16',
            'x_blk8_b2', 'x_blk8wo_b2']   # the last two: block-wise weights (skip_checks), one sharer replaced by an emulation subgraph


def plan(tier):
  return {'n_cases': 900 if tier == 'quick' else 36000, 'shards': 16}


def setup(ctx):
  ctx.bw = mech.install_buffer_write_monitor()


def build(rng, kind, k):
  b = models.B()
  graphs = []
  consumers = []   # (op selector, output tensor name)
  if kind == 'same_tensor':
    g = models.G(b, 'main', 'm/', rng)
    x = g.inp((2, 6))
    w = g.const('shared_w', g.w((6, 6), 0.5))
    cur = x
    outs = []
    for i in range(k):
      y = g.fc(cur, 6, w=w, bias=bool(rng.random() < 0.5))
      consumers.append(('FULLY_CONNECTED', g.sg.tensors[y].name.decode()))
      outs.append(y)
      cur = g.tanh(y) if rng.random() < 0.5 else x
    g.finish(outs if rng.random() < 0.5 else outs[-1:] + [o for o in outs[:-1] if True], 'serving_default')
    graphs.append(g)
  elif kind == 'same_buffer':
    g = models.G(b, 'main', 'm/', rng)
    r3 = bool(rng.random() < 0.3)        # [batch, sequence, features] activations (what the block-wise emulation expects)
    x = g.inp((1, 2, 6) if r3 else (2, 6))
    arr = g.w((6, 6), 0.5)
    buf = b.new_buffer(arr)
    outs = []
    cur = x
    for i in range(k):
      w = g.const('tied_w', arr, buffer=buf)
      y = g.fc(cur, 6, w=w, bias=False, keep=r3)
      consumers.append(('FULLY_CONNECTED', g.sg.tensors[y].name.decode()))
      outs.append(y)
      cur = g.gelu(y) if rng.random() < 0.5 else x
    g.finish(outs, 'serving_default')
    graphs.append(g)
  elif kind == 'across_subgraphs':
    arr = None
    for i in range(k):
      g = models.G(b, f'sub{i}', f's{i}/', rng)
      if i == 0:
        r3 = bool(rng.random() < 0.3)
      x = g.inp((1, 2, 6) if r3 else (2, 6))
      if arr is None:
        arr = g.w((5, 6), 0.5)
        buf = b.new_buffer(arr)
      w = g.const('tied_w', arr, buffer=buf)
      if i and rng.random() < 0.5:
        x = g.tanh(x)          # the consuming operator sits at another position than in subgraph 0
      y = g.fc(x, 5, w=w, bias=bool(rng.random() < 0.5), keep=r3)
      consumers.append(('FULLY_CONNECTED', g.sg.tensors[y].name.decode()))
      g.finish([g.tanh(y)] if rng.random() < 0.5 else [y], f'sig{i}')
      graphs.append(g)
  elif kind == 'mixed_dtype_buffer':
    # the converter de-duplicates constant buffers by content: an all-zero float32 weight (a LoRA B matrix at initialisation) and
    # all-zero int32 slice offsets of the same byte length end up in ONE buffer
    g = models.G(b, 'main', 'm/', rng)
    x = g.inp((2, 2))
    buf = b.new_buffer(np.zeros(2, dtype=np.int32))
    bt = g.const('ss_begin', np.zeros(2, dtype=np.int32), buffer=buf)
    et = g.const('ss_end', np.array([2, 2], dtype=np.int32))
    st = g.const('ss_strides', np.array([1, 1], dtype=np.int32))
    t = g.act('strided_slice', (2, 2))
    g.op(models.BO.STRIDED_SLICE, [x, bt, et, st], [t], models.S.StridedSliceOptionsT(), models.S.BuiltinOptions.StridedSliceOptions)
    w0 = g.const('lora_b_w', np.zeros((1, 2), dtype=np.float32), buffer=buf)
    y0 = g.fc(t, 1, w=w0, bias=False)
    y1 = g.fc(t, 3)
    consumers = [('FULLY_CONNECTED', g.sg.tensors[y0].name.decode()), ('FULLY_CONNECTED', g.sg.tensors[y1].name.decode())][:max(2, k)]
    g.finish([y0, y1], 'serving_default')
    graphs.append(g)
  else:  # tied_embedding
    g = models.G(b, 'main', 'm/', rng)
    vocab, dim = 7, 4
    ids = g.inp((3,), TT.INT32, vocab=vocab)
    x = g.inp((2, dim))
    if rng.random() < 0.5:
      w = g.const('table', g.w((vocab, dim)))
      w2 = w
    else:
      arr = g.w((vocab, dim))
      buf = b.new_buffer(arr)
      w = g.const('table', arr, buffer=buf)
      w2 = g.const('lm_head_w', arr, buffer=buf)
    e = g.emb(ids, vocab, dim, w=w)
    y = g.fc(x, vocab, w=w2, bias=False)
    consumers = [('EMBEDDING_LOOKUP', g.sg.tensors[e].name.decode()), ('FULLY_CONNECTED', g.sg.tensors[y].name.decode())]
    g.finish([e, y], 'serving_default')
    graphs.append(g)
  return models._spec(b, graphs, kind), consumers


def check_returned(ctx, spec, src, out, base, replaced=False):
  """replaced: a block-wise (operator replacement) setting was accepted -- the graph is legitimately restructured and the emulation
  stores its scales in separate tensors, so only the byte-level agreement of every tensor with its buffer is judged."""
  if replaced:
    ms, mo, maps = src, models.read(out), None
    ctx.count('operator_replacement_returned:bytes_only')
  else:
    errs, maps, ms, mo = skeleton.analyse(spec.content, out, ms=src)
    if [e for e in errs if not e[0].startswith('sig_')] or maps is None or any(m is None for m in maps):
      ctx.violation('skeleton_broken', {'error': sorted({e[0] for e in errs})[0]}, base)
      return
  # ---- per buffer: sharers agree with the stored bytes
  by_buf = {}
  for si, sg in enumerate(mo.subgraphs):
    for ti, t in enumerate(sg.tensors):
      d = mo.buffers[t.buffer].data
      if t.buffer and d is not None and len(d) > 0:
        by_buf.setdefault(int(t.buffer), []).append((si, ti, t))
  for bi, lst in by_buf.items():
    raw = decode.raw(mo.buffers[bi])
    sigs = set()
    for si, ti, t in lst:
      qp = decode.qparams(t)
      sigs.add((t.type, None if qp is None else (tuple(qp[0].tolist()), tuple(qp[1].tolist()), qp[2] if qp[0].size > 1 else 0)))
      ctx.count('sharer_tensors_checked')
      if len(raw) != decode.expected_nbytes(t):
        ctx.violation('buffer_length_contradicts_tensor', {'dtype': decode.TYPE_NAME.get(t.type)},
                      dict(base, tensor=t.name.decode(), stored=len(raw), implied=decode.expected_nbytes(t)))
    if len(lst) > 1:
      ctx.count('shared_buffers_checked')
      def untouched(si, ti, t):
        """The sharer is exactly what the input model had (the converter may tie tensors of different dtypes whose BYTES coincide)."""
        if si >= len(ms.subgraphs) or ti >= len(ms.subgraphs[si].tensors):
          return False
        t0 = ms.subgraphs[si].tensors[ti]
        return (t0.type == t.type and decode.qparams(t) is None and decode.raw(ms.buffers[t0.buffer]) is not None
                and bytes(decode.raw(ms.buffers[t0.buffer])) == bytes(raw))
      if len(sigs) > 1 and all(untouched(si, ti, t) for si, ti, t in lst):
        ctx.count('mixed_dtype_sharers_left_untouched')
      elif len(sigs) > 1:
        ctx.violation('sharers_disagree', {'dtypes': sorted(decode.TYPE_NAME.get(s[0]) for s in sigs)}, dict(base, buffer=bi))
  if replaced:
    return
  # ---- per consumer of a SHARED constant: actual operand decodes to the source constant
  buf_refs = {}
  uses = {}
  for si, sg in enumerate(ms.subgraphs):
    for ti, t in enumerate(sg.tensors):
      buf_refs[int(t.buffer)] = buf_refs.get(int(t.buffer), 0) + 1
    for op in sg.operators:
      for i in op.inputs:
        if int(i) >= 0:
          uses[(si, int(i))] = uses.get((si, int(i)), 0) + 1
  for si, (a, b) in enumerate(zip(ms.subgraphs, mo.subgraphs)):
    mp = maps[si]
    producer_of = {int(o): op for op in b.operators for o in op.outputs}
    for k, oa in enumerate(a.operators):
      ob = b.operators[mp.kept[k]]
      for pos, (t0, t1) in enumerate(zip(oa.inputs, ob.inputs)):
        t0, t1 = int(t0), int(t1)
        if t0 < 0:
          continue
        ta = a.tensors[t0]
        sd = ms.buffers[ta.buffer].data
        if ta.type != TT.FLOAT32 or sd is None or len(sd) == 0:
          continue
        if buf_refs.get(int(ta.buffer), 0) < 2 and uses.get((si, t0), 0) < 2:
          continue
        x = np.frombuffer(decode.raw(ms.buffers[ta.buffer]), dtype=np.float32).reshape(decode.shape_of(ta)).astype(np.float64)
        tb = b.tensors[t1]
        stored = tb
        via_dq = False
        if t1 != t0:
          p = producer_of.get(t1)
          if p is None or skeleton.code(mo, p) != BO.DEQUANTIZE:
            continue
          stored = b.tensors[int(p.inputs[0])]
          via_dq = True
        raw = decode.raw(mo.buffers[stored.buffer])
        opn = models.CODE_NAMES.get(skeleton.code(ms, oa))
        f = {'consumer': opn, 'operand_dtype': decode.TYPE_NAME.get(tb.type), 'stored_dtype': decode.TYPE_NAME.get(stored.type)}
        d = dict(base, tensor=ta.name.decode(), consumer_index=k)
        ctx.count('consumers_checked')
        if raw is None or len(raw) != decode.expected_nbytes(stored):
          ctx.violation('consumer_reads_reinterpreted_bytes', f, dict(d, stored=None if raw is None else len(raw), implied=decode.expected_nbytes(stored)))
          continue
        vals = decode.decode(stored, raw)
        if stored.type == TT.FLOAT32:
          if decode.qparams(stored) is not None:
            ctx.violation('float_constant_annotated', f, d)
          if not np.array_equal(vals.astype(np.float64), x):
            ctx.violation('float_consumer_sees_changed_values', f, d)
        elif stored.type == TT.FLOAT16:
          if not via_dq:
            ctx.violation('consumer_reads_float16_directly', f, d)
          if np.any(np.abs(vals.astype(np.float64) - x) > 2.0 ** -10 * np.abs(x) + 6e-8):
            ctx.violation('consumer_sees_values_beyond_one_step', f, d)
        else:
          qp = decode.qparams(stored)
          if qp is None:
            ctx.violation('integer_constant_without_parameters', f, d)
            continue
          deq = decode.dequantize(vals, stored).astype(np.float64)
          sc = qp[0].astype(np.float64)
          if sc.size > 1:
            shp = [1] * x.ndim
            shp[qp[2]] = sc.size
            sc = sc.reshape(shp)
          else:
            sc = float(sc[0])
          err = np.abs(deq - x) / sc
          if err.size and err.max() > 1.0 * (1 + 1e-3) + 1e-6:
            ctx.violation('consumer_sees_values_beyond_one_step', f, dict(d, err_steps=float(err.max())))
  # ---- buffer-write monitor
  for bi, hs in mech.BUFFER_WRITES.items():
    ctx.count('buffer_writes_observed', len(hs))
    if len(set(hs)) > 1:
      ctx.violation('buffer_written_with_different_contents', {'writes': len(hs)}, dict(base, buffer=bi))


def run_case(ctx, case, rng):
  kind = (['same_tensor', 'same_buffer', 'across_subgraphs', 'tied_embedding'] * 3 + ['mixed_dtype_buffer'])[case % 13]
  k = 2 if kind in ('tied_embedding', 'mixed_dtype_buffer') else int(rng.integers(2, 5 if kind == 'same_tensor' else 4))
  if kind == 'same_tensor' and rng.random() < 0.1:
    k = int(rng.integers(9, 13))
    ctx.count('tied_constant_with_9_or_more_consumers')
  spec, consumers = build(rng, kind, k)
  datasets = common.make_data(rng, spec)
  ok, why = common.admit(spec, datasets)
  if not ok:
    return {'outcome': 'skipped', 'reason': 'generator_reject ' + why[:60]}
  src = models.read(spec.content)
  for _ in range(3):
    r0 = rng.random()
    if r0 < 0.25:
      s0 = SETTINGS[int(rng.integers(1, len(SETTINGS)))]
      settings = [s0] * k
    elif r0 < 0.5:
      # same stored weights, different compute mode per sharer (dynamic-range here, weight-only there): the one combination in
      # which sharers with DIFFERENT settings may legitimately share quantized bytes
      fam = recipes.SAME_WEIGHT_FAMILIES[int(rng.integers(len(recipes.SAME_WEIGHT_FAMILIES)))]
      settings = [fam[int(rng.integers(2))] for _ in range(k)]
      ctx.count('same_weights_mixed_modes_assignments')
    elif r0 < 0.58:
      # one sharer replaced by the block-wise emulation, the others left alone / float
      settings = [str(rng.choice(['x_blk8wo_b2', 'x_blk8_b2']))] + [[None, 'noq', 'wo8s_cw'][int(rng.integers(3))] for _ in range(k - 1)]
      settings = [settings[i] for i in rng.permutation(k)]
      ctx.count('blockwise_sharer_assignments')
    else:
      settings = [SETTINGS[int(rng.integers(len(SETTINGS)))] for _ in range(k)]
    qt = aeq.Quantizer(spec.content)
    acc = []
    if rng.random() < 0.2:
      base_name = str(rng.choice(['wo8a_cw', 'drq8_cw', 'srq8a_cw']))
      qt.update_quantization_recipe('.*', OP('*'), recipes.CFGS[base_name][1], recipes.CFGS[base_name][0])
      acc.append(('.*', '*', base_name))
    for (sel, out_name), s in zip(consumers, settings):
      if s is None:
        continue
      alg, cfg = recipes.CFGS[s]
      try:
        qt.update_quantization_recipe(re.escape(out_name), OP(sel), cfg, alg)
        acc.append((re.escape(out_name), sel, s))
      except ValueError:
        pass
    if not acc:
      continue
    base = {'kind': kind, 'k': k, 'settings': settings, 'rules': acc}
    mech.reset_buffer_writes()
    try:
      cal = common.calibrate_all(qt, spec, datasets) if qt.need_calibration else None
      out = bytes(qt.quantize(cal).quantized_model)
    except Exception as e:  # pylint: disable=broad-except
      ctx.count(f'outcome:{kind}:raised')
      ctx.count('raised:' + common.exc_signature(e)[:70])
      ctx.unit(common.digest([kind, k, settings, acc[0] if acc[0][1] == '*' else None]), len(set(settings)) > 1 or any(s not in (None, 'noq') for s in settings))
      continue
    ctx.count(f'outcome:{kind}:returned')
    distinct = len({s for s in settings})
    ctx.count('assignment:' + ('equal' if distinct == 1 else 'different'))
    ctx.unit(common.digest([kind, k, settings, acc[0] if acc[0][1] == '*' else None]), distinct > 1 or any(s not in (None, 'noq') for s in settings))
    check_returned(ctx, spec, src, out, base, replaced=any(str(s_).startswith('x_blk') for s_ in settings if s_))
    if ctx.sample is None:
      ctx.sample = dict(base, outcome='returned')
  return {}


def summarize(agg):
  st = agg['stats']
  inc = []
  for kind in ('same_tensor', 'same_buffer', 'across_subgraphs', 'tied_embedding'):
    if st.get(f'outcome:{kind}:returned', 0) == 0:
      inc.append(f'{kind}: no returned model')
    if st.get(f'outcome:{kind}:raised', 0) == 0:
      inc.append(f'{kind}: no rejected request')
  matrix = {k: v for k, v in st.items() if k.startswith('outcome:')}
  return {'inconclusive': inc, 'coverage': {'outcome_matrix': matrix,
                                            'buffer_write_monitor': 'on' if st.get('buffer_writes_observed', 0) else 'disabled (hooked attribute missing); verdict from the byte-level oracles only'}}
