"""C17 -- quantization arithmetic obeys its algebraic laws on all inputs."""
import itertools
import numpy as np
from ai_edge_quantizer import qtyping
from ai_edge_quantizer.algorithms.uniform_quantize import uniform_quantize_tensor as u
from vf.monitors import contracts, fpflags

LEVEL = 'exploration'
RULE = ('case ids < 840: the full grid {4,8,16 bit} x {sym,asym} x 14 magnitudes (denormals 1e-300, 1.4e-45, 1e-40 .. 3e38) x '
        '{two-sided, positive, negative, point, zero} x {float32,float64}, each with ALL integer codes of the '
        'width (exhaustive over codes) and 257 random in-range values; id 840: the repository\'s own test suite run with the contracts attached; larger ids: (every 8th) the public calibrate/quantize pipeline on generated models so that the contracts observe the library\'s own calls, otherwise random tensors of rank 0-4 '
        'with per-axis parameters on any dimension, permutation commutation, bias quantisation.  Contracts '
        '(icontract post-conditions) run on every library call.  distinct by (bits, symmetry, magnitude, '
        'kind, dtype | shape, axis); non-trivial iff the range is not the all-zero one')
ASSUMPTIONS = ['inputs are finite by construction', 'tolerance: 0.51 step (half a step + float32 resolution of x/scale+zp) plus 2^-21*|x|',
               'bias: |q - b/s| <= 0.5 + |b/s|*2^-20 (float32 product in the library)']

MAGS = [1e-300, 1.4e-45, 1e-40, 1e-37, 1e-30, 1e-12, 1e-6, 1e-4, 1e-2, 1.0, 1e3, 1e10, 1e30, 3e38]   # incl. denormals of float32 / float64
KINDS = ['both', 'pos', 'neg', 'point', 'zero']
DTS = [np.float32, np.float64]
# half a step plus the float32 resolution of (x/scale + zero_point) at 16-bit magnitudes (2**-8 step)
HALF_STEP_TOL = 0.5 + 0.01
GRID = list(itertools.product([4, 8, 16], [True, False], MAGS, KINDS, DTS))


def plan(tier):
  return {'n_cases': len(GRID) + (1500 if tier == 'quick' else 300000), 'shards': 16}


def setup(ctx):
  ctx.hooked = contracts.install()
  fpflags.install()     # IEEE exception flags raised inside library frames are recorded per site (evidence, not a verdict)


def _report_contracts(ctx):
  for contract, kind, feats, detail in contracts.drain():
    ctx.violation('contract:' + contract + ':' + kind, feats, detail)


def grid_case(ctx, idx, rng):
  bits, sym, mag, kind, dt = GRID[idx]
  qmin, qmax = -2 ** (bits - 1), 2 ** (bits - 1) - 1
  a, b = sorted(rng.uniform(-1, 1, 2) * mag)
  if kind == 'pos':
    a, b = abs(a), abs(a) + abs(b)
  if kind == 'neg':
    a, b = -abs(a) - abs(b), -abs(a)
  if kind == 'point':
    b = a
  if kind == 'zero':
    a = b = 0.0
  mn, mx = dt(a), dt(b)
  if not (np.isfinite(mn) and np.isfinite(mx)):
    return {'outcome': 'skipped', 'reason': 'generated bound not finite'}
  tag = {'bits': bits, 'symmetric': sym, 'mag': mag, 'kind': kind, 'dtype': dt.__name__}
  ctx.key = str(tag)
  ctx.nontrivial = kind != 'zero'
  ctx.sample = dict(tag, min=float(mn), max=float(mx))
  zp, sc = u.tensor_zp_scale_from_min_max(np.array([[mn]]), np.array([[mx]]), bits, sym)
  ctx.count('zs_calls')
  width_overflow = bool((max(float(mx), 0.0) - min(float(mn), 0.0)) > np.finfo(dt).max)
  if not (np.all(np.isfinite(sc)) and np.all(sc > 0)):
    ctx.violation('law:scale_not_finite_positive', dict(bits=bits, symmetric=sym, width_overflows_input_dtype=width_overflow,
                                                      input_dtype=np.dtype(dt).name),
                  dict(tag, min=float(mn), max=float(mx), scale=np.asarray(sc).tolist()))
    _report_contracts(ctx)
    return {}
  if np.any(zp < qmin) or np.any(zp > qmax):
    ctx.violation('law:zero_point_range', {'bits': bits, 'symmetric': sym}, tag)
  if sym and np.any(zp != 0):
    ctx.violation('law:zero_point_symmetric', {'bits': bits}, tag)
  p = qtyping.UniformQuantParams(bits, None, sc, zp, symmetric=sym)
  step = float(np.ravel(sc)[0])
  z0 = int(np.ravel(zp)[0])
  lo_q = -qmax if sym else qmin
  # ALL codes, parameters exactly as produced (same dtypes)
  code_dt = np.int8 if bits <= 8 else np.int16
  codes = np.arange(lo_q, qmax + 1).reshape(1, -1).astype(code_dt)
  deq = u.uniform_dequantize(codes, p)
  ref = (codes.astype(np.int64) - z0).astype(np.float64) * float(step)
  ctx.count('codes_checked', codes.size)
  if not np.allclose(np.asarray(deq, dtype=np.float64), ref, rtol=1e-6, atol=0):
    ctx.violation('law:dequantize_differs_from_wide_reference',
                  {'bits': bits, 'data_dtype': np.dtype(code_dt).name, 'zp_dtype': str(np.asarray(zp).dtype), 'symmetric': sym},
                  dict(tag, n_bad=int(np.sum(~np.isclose(np.asarray(deq, dtype=np.float64), ref, rtol=1e-6, atol=0))), zp=z0))
  if np.all(np.isfinite(np.asarray(deq, dtype=np.float64))):
    rq = u.uniform_quantize(np.asarray(deq), p)
    if np.any(rq != codes):
      ctx.violation('law:quantize_of_dequantize_not_identity',
                    {'bits': bits, 'symmetric': sym, 'data_dtype': np.dtype(code_dt).name},
                    dict(tag, n_bad=int(np.sum(rq != codes)), zp=z0))
  # data beyond the range must be clipped into the (narrow when symmetric) code range
  xdt0 = np.asarray(sc).dtype if np.asarray(sc).dtype.kind == 'f' else np.float32
  span = max(abs(float(mn)), abs(float(mx)), step)
  with np.errstate(all='ignore'):
    xo = (rng.uniform(-4, 4, size=(1, 129)) * span).astype(xdt0)
    xo = np.concatenate([xo, np.array([[-(qmax + 3) * step, -(qmax + 1) * step, -qmax * step, (qmax + 2) * step]], dtype=xdt0)], axis=1)
    # finite outliers astronomically far outside the range (x/scale beyond 2**63) must still saturate to the nearest end
    fmax = float(np.finfo(xdt0).max)
    far = [v for v in (1e19 * step, 1e25 * step, 1e20, 1e30, fmax / 4, fmax) if np.isfinite(v) and v < fmax * 1.0000001]
    xo = np.concatenate([xo, np.array([far + [-v for v in far]], dtype=xdt0)], axis=1)
  xo = xo[np.isfinite(xo)].reshape(1, -1)
  if xo.size:
    with np.errstate(all='ignore'):
      qo = u.uniform_quantize(xo, p)
    ctx.count('out_of_range_values_checked', xo.size)
    if qo.min() < lo_q or qo.max() > qmax:
      ctx.violation('law:code_out_of_range', {'bits': bits, 'symmetric': sym, 'input': 'beyond_range'}, dict(tag, got=[int(qo.min()), int(qo.max())], allowed=[lo_q, qmax]))
    order = np.argsort(xo.astype(np.float64), axis=None, kind='stable')
    qs_ = qo.reshape(-1)[order].astype(np.int64)
    if np.any(np.diff(qs_) < 0):
      i = int(np.argmax(np.diff(qs_) < 0))
      ctx.violation('law:not_monotone', {'bits': bits, 'symmetric': sym, 'input': 'beyond_range'},
                    dict(tag, x=[float(xo.reshape(-1)[order][i]), float(xo.reshape(-1)[order][i + 1])], q=[int(qs_[i]), int(qs_[i + 1])]))
    hi_x = xo.astype(np.float64) > (qmax - z0 + 1) * step
    lo_x = xo.astype(np.float64) < (lo_q - z0 - 1) * step
    if np.any(qo[hi_x] != qmax) or np.any(qo[lo_x] != lo_q):
      ctx.violation('law:saturation_to_wrong_end', {'bits': bits, 'symmetric': sym}, dict(tag, n_high=int(hi_x.sum()), n_low=int(lo_x.sum())))
  # random in-range data
  xdt = np.asarray(sc).dtype if np.asarray(sc).dtype.kind == 'f' else np.float32
  x = rng.uniform(min(float(mn), 0), max(float(mx), 0), size=(1, 257)).astype(xdt)
  q = u.uniform_quantize(x, p)
  ctx.count('values_checked', x.size)
  if q.min() < lo_q or q.max() > qmax:
    ctx.violation('law:code_out_of_range', {'bits': bits, 'symmetric': sym}, tag)
  xs = np.sort(x, axis=1)
  qs = u.uniform_quantize(xs, p)
  if np.any(np.diff(qs.astype(np.int64), axis=1) < 0):
    ctx.violation('law:not_monotone', {'bits': bits, 'symmetric': sym}, tag)
  back = (q.astype(np.int64) - z0).astype(np.float64) * step
  lo, hi = (lo_q - z0) * step, (qmax - z0) * step
  x64 = x.astype(np.float64)
  inr = (x64 >= lo) & (x64 <= hi)
  if np.any(inr):
    err = np.max(np.abs(back - x64)[inr] - np.abs(x64[inr]) * 2.0 ** -21) / step
    ctx.observe_max('roundtrip_err_steps', err)
    if err > HALF_STEP_TOL:
      ctx.violation('law:roundtrip_exceeds_half_step', {'bits': bits, 'symmetric': sym}, dict(tag, err_steps=float(err)))
  _report_contracts(ctx)
  return {}


def axis_case(ctx, rng):
  rank = int(rng.integers(0, 5))
  shape = tuple(int(rng.integers(1, 5)) for _ in range(rank))
  bits = int(rng.choice([4, 8, 16]))
  sym = bool(rng.random() < 0.5)
  x = (rng.normal(size=shape) * float(rng.choice([1e-3, 1.0, 50.0]))).astype(np.float32)
  qmax = 2 ** (bits - 1) - 1
  lo_q = -qmax if sym else -qmax - 1
  if rank == 0:
    axis = None
  else:
    axis = int(rng.integers(0, rank)) if rng.random() < 0.8 else None
  ctx.key = f'{shape}/{axis}/{bits}/{sym}'
  ctx.nontrivial = x.size > 0
  ctx.sample = {'shape': list(shape), 'axis': axis, 'bits': bits, 'symmetric': sym}
  if axis is None:
    mn = np.min(x, keepdims=True)
    mx = np.max(x, keepdims=True)
  else:
    red = tuple(i for i in range(rank) if i != axis)
    mn = np.min(x, axis=red, keepdims=True)
    mx = np.max(x, axis=red, keepdims=True)
  zp, sc = u.tensor_zp_scale_from_min_max(mn, mx, bits, sym)
  ctx.count('zs_calls')
  # flattened parameters as the flatbuffer stores them -> exercises the rank fix-up
  # (a per-tensor scale is a 1-element vector there whatever the rank of the tensor, rank 0 included)
  flat = bool(rng.random() < 0.5)
  # -- built the way UniformQuantParams.from_tfl_tensor_details builds them: quantized_dimension 0 for per-tensor
  qdim = axis if (axis is not None or not flat or rank == 0) else 0
  p = qtyping.UniformQuantParams(bits, qdim, sc.reshape(-1) if flat else sc,
                                 zp.reshape(-1) if flat else zp, symmetric=sym)
  q = u.uniform_quantize(x, p)
  ctx.count('tensors_quantized')
  ctx.count('rank:%d' % rank)
  feats = {'bits': bits, 'symmetric': sym, 'rank': rank, 'per_axis': axis is not None, 'flat_params': bool(flat)}
  if q.shape != x.shape:
    ctx.violation('law:shape_changed', feats, ctx.sample)
    return {}
  if q.size and (q.min() < lo_q or q.max() > qmax):
    ctx.violation('law:code_out_of_range', feats, ctx.sample)
  # per-channel params act only along their channel
  if axis is not None:
    for c in range(shape[axis]):
      sl = [slice(None)] * rank
      sl[axis] = slice(c, c + 1)
      scc = np.take(sc, [c], axis=axis)
      zpc = np.take(zp, [c], axis=axis)
      pc = qtyping.UniformQuantParams(bits, None, scc, zpc, symmetric=sym)
      qc = u.uniform_quantize(x[tuple(sl)], pc)
      ctx.count('channels_checked')
      if not np.array_equal(qc, q[tuple(sl)]):
        ctx.violation('law:channel_crosstalk', feats, dict(ctx.sample, channel=c))
        break
    if rank >= 2:
      perm = list(rng.permutation(rank))
      xt = np.transpose(x, perm)
      pt = qtyping.UniformQuantParams(bits, perm.index(axis), np.transpose(sc, perm), np.transpose(zp, perm), symmetric=sym)
      qt_ = u.uniform_quantize(xt, pt)
      if not np.array_equal(qt_, np.transpose(q, perm)):
        ctx.violation('law:permutation_does_not_commute', feats, dict(ctx.sample, perm=[int(i) for i in perm]))
  # dequantize round trip with the produced codes
  d = u.uniform_dequantize(q, p)
  scb = sc if sc.ndim == x.ndim else sc.reshape(())
  zpb = zp if zp.ndim == x.ndim else zp.reshape(())
  ref = (q.astype(np.int64) - zpb.astype(np.int64)).astype(np.float64) * scb.astype(np.float64)
  if np.asarray(d).shape != ref.shape or not np.allclose(np.asarray(d, dtype=np.float64), ref, rtol=1e-6, atol=0):
    ctx.violation('law:dequantize_differs_from_wide_reference',
                  {'bits': bits, 'data_dtype': str(q.dtype), 'zp_dtype': str(zp.dtype), 'symmetric': sym}, ctx.sample)
  err = np.abs(ref - x.astype(np.float64)) / scb.astype(np.float64)
  if err.size:
    ctx.observe_max('roundtrip_err_steps', float(err.max()))
    if err.max() > HALF_STEP_TOL:
      ctx.violation('law:roundtrip_exceeds_half_step', feats, dict(ctx.sample, err_steps=float(err.max())))
  _report_contracts(ctx)
  return {}


def bias_case(ctx, rng):
  n = int(rng.integers(1, 9))
  per_axis = bool(rng.random() < 0.6)
  in_bits = int(rng.choice([8, 16]))
  isc = np.array([float(rng.choice([1e-6, 4e-7, 1e-3, 0.05, 2.0]))], dtype=np.float32).reshape(1)
  wsc = (np.abs(rng.normal(size=(n if per_axis else 1, 1))) * 0.01 + 1e-5).astype(np.float32)
  bias = (rng.normal(size=(n,)) * float(rng.choice([1e-3, 1.0, 100.0]))).astype(np.float32)
  ip = qtyping.UniformQuantParams(in_bits, None, isc, np.zeros(1, np.int32), symmetric=(in_bits == 16))
  wp = qtyping.UniformQuantParams(8, 0 if per_axis else None, wsc, np.zeros_like(wsc, dtype=np.int32), symmetric=True)
  r = u.symmetric_quantize_bias_tensor(bias, ip, wp)
  ctx.count('bias_calls')
  ctx.key = f'bias/{n}/{per_axis}/{in_bits}/{float(isc[0])}'
  ctx.nontrivial = True
  ctx.sample = {'bias_len': n, 'per_axis': per_axis, 'in_bits': in_bits, 'in_scale': float(isc[0])}
  eff = (isc.astype(np.float64) * wsc.astype(np.float64)).reshape(-1)
  want = bias.astype(np.float64) / (eff if eff.size == n else np.full(n, eff[0]))  # unrounded
  lim = 2 ** ((64 if in_bits == 16 else 32) - 1) - 1
  q = np.asarray(r.quantized_data).astype(np.float64)
  ok = np.abs(want) < lim
  tol = 0.5 + np.abs(want) * 2.0 ** -20 + 1e-6
  if q.shape != want.shape or np.any(ok & (np.abs(q - want) > tol)):
    ctx.violation('law:bias_not_round_of_bias_over_scale', {'in_bits': in_bits, 'per_axis': per_axis},
                  dict(ctx.sample, got=q[:4].tolist(), want=want[:4].tolist()))
  # Round trip of the (32- or 64-bit) bias codes: dequantize(quantize(b)) is within half a step of b.  64-bit codes routinely
  # exceed 2^31 here (int16 activations with a tiny effective scale), which no 4/8/16-bit sweep reaches; the uniform_dequantize
  # contract additionally compares the call with the wide-integer reference.
  if q.shape == want.shape and np.all(ok):
    deq = np.asarray(u.uniform_dequantize(np.asarray(r.quantized_data), r), dtype=np.float64).reshape(-1)
    ctx.count('bias_roundtrips')
    if np.any(np.abs(q) >= 2.0 ** 31):
      ctx.count('bias_roundtrips_beyond_int32')
    step = eff if eff.size == n else np.full(n, eff[0])
    rt_tol = step * tol + np.abs(bias.astype(np.float64)) * 1e-5
    if deq.shape != want.shape or np.any(np.abs(deq - bias.astype(np.float64)) > rt_tol):
      ctx.violation('law:bias_roundtrip_exceeds_half_step', {'in_bits': in_bits, 'per_axis': per_axis},
                    dict(ctx.sample, bias=bias[:4].tolist(), dequantized=deq[:4].tolist(), codes=q[:4].tolist()))
  _report_contracts(ctx)
  return {}


def pipeline_case(ctx, case, rng):
  """Drives the real calibrate()/quantize()/validate() pipeline so that the contracts observe the calls the library itself makes."""
  from vf.props import common
  from vf.gen import data as gdata
  before = dict(contracts.EVALS)
  n = 0
  for spec, src, datasets, lab, run, acc in common.graph_workload(ctx, case, rng, safe_regex=True, n_random=2,
                                                                  data_mix=[('normal',), ('tiny',), ('huge',), ('zero', 'normal'), ('negative',), ('positive',)]):
    n += 1
  ctx.count('pipeline_runs', n)
  ctx.count('pipeline_contract_evals', sum(contracts.EVALS.values()) - sum(before.values()))
  ctx.key = f'pipeline/{case}'
  ctx.nontrivial = n > 0
  _report_contracts(ctx)
  return {}


def repo_tests_under_contracts(ctx):
  """The repository's own test suite with the contracts attached: a contract that fires there is too strict or a defect."""
  import json, os, subprocess, sys
  from vf.run import driver
  dump = os.path.join(driver.ROOT, '.work', f'contract_dump_{os.getpid()}.json')
  env = driver.child_env({'VF_CONTRACT_DUMP': dump})
  env.pop(driver.GUARD, None)
  try:
    subprocess.run([driver.PY, '-m', 'pytest', '-q', '-p', 'no:cacheprovider', '-p', 'vf.monitors.pytest_plugin', '--timeout=900',
                    '--continue-on-collection-errors', 'ai_edge_quantizer'], cwd=driver.REPO, env=env, capture_output=True, timeout=1500)
    with open(dump) as f:
      d = json.load(f)
  except Exception:  # pylint: disable=broad-except
    ctx.count('repo_tests_under_contracts_unavailable')
    return {'outcome': 'skipped', 'reason': 'repo tests under contracts unavailable'}
  finally:
    try:
      os.remove(dump)
    except OSError:
      pass
  ctx.key = 'repo_tests_under_contracts'
  ctx.nontrivial = True
  for k, v in d['evals'].items():
    ctx.count('repo_tests_contract_evals:' + k, v)
  ctx.count('repo_tests_contract_evals', sum(d['evals'].values()))
  for f in d['failures']:
    ctx.violation('contract:' + f['contract'] + ':' + f['kind'], dict(f['features'] or {}, observed_in='repository_test_suite'), f['detail'])
  ctx.sample = {'repo_tests_under_contracts': d['evals'], 'failures': len(d['failures'])}
  return {}


def run_case(ctx, case, rng):
  try:
    return _run_case(ctx, case, rng)
  finally:
    for (kind, site), n in fpflags.drain().items():
      ctx.count(f'fp_exception_flag:{kind}:{site}', n)


def _run_case(ctx, case, rng):
  if case == len(GRID):
    return repo_tests_under_contracts(ctx)
  if case < len(GRID):
    return grid_case(ctx, case, rng)
  if case % 8 == 5:
    return pipeline_case(ctx, case, rng)
  if rng.random() < 0.2:
    return bias_case(ctx, rng)
  return axis_case(ctx, rng)


def teardown(ctx):
  ctx.case = -1
  ctx.emit({'ev': 'case', 'case': -1 - 0, 'outcome': 'meta', 'stats': {'contract_evals:' + k: v for k, v in contracts.EVALS.items()},
            'n_violations': 0, 'max': {}, 'sample': None, 'key': None, 'nontrivial': False, 'units': [],
            'reason': contracts.BACKEND + ' hooked=' + ','.join(getattr(ctx, 'hooked', []))})


def summarize(agg):
  st = agg['stats']
  inc = []
  for name in ('tensor_zp_scale_from_min_max', 'uniform_quantize', 'uniform_dequantize', 'symmetric_quantize_bias_tensor'):
    if st.get('contract_evals:' + name, 0) == 0:
      inc.append(f'contract on {name} was never evaluated')
  backends = sorted({e.get('reason') for e in agg['cases'] if e.get('outcome') == 'meta'})
  fp = {k.split(':', 1)[1]: v for k, v in st.items() if k.startswith('fp_exception_flag:')}
  return {'inconclusive': inc, 'coverage': {'exhaustive_over_codes': True, 'contract_backend': backends[:1],
                                            'fp_exception_flags_raised_in_library_frames': fp or 'none'}}
