"""C13 -- every accepted (op, config) pair is runtime-sound; unsupported ones are refused."""
import itertools
import numpy as np
from ai_edge_quantizer import quantizer as aeq, qtyping
from vf.gen import models, recipes, data as gdata
from vf.oracle import skeleton, decode
from vf.props import common, c01, c03, c06, c07

LEVEL = 'exploration'
OP = qtyping.TFLOperationName
T, C, GR, CP, DT = recipes.T, recipes.C, recipes.GR, recipes.CP, recipes.DT
TT = models.TT
BO = models.BO

SELECTORS = [o.value for o in OP if o.value != '*']
ACTS = [None, (8, True), (8, False), (16, True), (16, False)]
POINTS = list(itertools.product(ACTS, [4, 8, 16], [True, False], ['TENSORWISE', 'CHANNELWISE'], ['INT', 'FLOAT'],
                                ['INTEGER', 'FLOAT'], [False, True], [recipes.MINMAX, recipes.FLOATCAST]))
IO_VARIANTS = ['fc', 'tanh', 'conv']
STAR_STRIDE = {'quick': 8, 'thorough': 1}

RULE = (f'the full lattice {len(SELECTORS)} selectors x {len(POINTS)} (activation none/8/16 x sym/asym, weight 4/8/16 bit x sym/asym x '
        'tensor/channel-wise x INT/FLOAT, compute precision, explicit_dequantize, 2 algorithms) is enumerated EXHAUSTIVELY through '
        'Quantizer.update_quantization_recipe: every refusal must be a ValueError; every accepted point is executed on every catalogue '
        'variant of its operator (2-3 single-operator models each) and must pass the C01 oracles and the C06/C07 bounds and must actually '
        'quantize the operator.  Additionally configs are applied as a "*" rule to the whole catalogue (every 8th config in quick, all in '
        'thorough): an operator is quantized iff the specific update is accepted, and the quantized ones pass the same oracles.  A unit is '
        'one executed (operator variant, config); distinct by that pair; non-trivial iff quantize() returned and the operator was rewritten')
ASSUMPTIONS = ['skip_checks and BLOCKWISE are outside the lattice (documented as outside runtime support)',
               'an accepted weight-only/dynamic config on an operator whose weight operand is a runtime tensor has nothing to rewrite']
_dummy = None
_variants = None


def n_star(tier):
  return len(range(0, len(POINTS), STAR_STRIDE[tier]))


def plan(tier):
  return {'n_cases': len(SELECTORS) + n_star(tier), 'shards': 16}


def build(point):
  act, wb, wsym, gran, wdt, cp, ed, alg = point
  a = None if act is None else T(act[0], act[1])
  return C(a, T(wb, wsym, GR(gran), DT(wdt)), CP(cp), ed), alg


def dummy():
  global _dummy
  if _dummy is None:
    _dummy = models.single_op_model(np.random.default_rng(0), 'fc').content
  return _dummy


def try_accept(ctx, sel, point):
  """'refused_construction' | 'refused_update' | ('accepted', cfg, alg); violations for non-ValueError refusals."""
  try:
    cfg, alg = build(point)
  except ValueError:
    return 'refused_construction'
  except Exception as e:  # pylint: disable=broad-except
    ctx.violation('refusal_is_not_ValueError', {'stage': 'construction', 'exc': type(e).__name__}, {'point': point})
    return 'refused_construction'
  want = recipes.declared_supported(alg, sel, cfg)
  try:
    qt = aeq.Quantizer(dummy())
    qt.update_quantization_recipe('.*', OP(sel), cfg, alg)
  except ValueError:
    if want:
      ctx.violation('acceptance_differs_from_declared_policy', {'selector': sel, 'declared': True, 'accepted': False}, {'config': str(cfg)[:300], 'algorithm': alg})
    return 'refused_update'
  except Exception as e:  # pylint: disable=broad-except
    ctx.violation('refusal_is_not_ValueError', {'stage': 'update', 'exc': type(e).__name__, 'selector': sel}, {'point': point, 'msg': str(e)[:200]})
    return 'refused_update'
  if not want:
    ctx.violation('acceptance_differs_from_declared_policy', {'selector': sel, 'declared': False, 'accepted': True}, {'config': str(cfg)[:300], 'algorithm': alg})
  return ('accepted', cfg, alg)


def mode_of(cfg, alg):
  return c03.mode_of(alg, cfg)


def operator_rewritten(src, mo, maps, opn):
  """Whether the (single) operator of type opn has any operand of changed dtype or a constant fed through DEQUANTIZE."""
  a, b = src.subgraphs[0], mo.subgraphs[0]
  mp = maps[0]
  producer_of = {int(o): op for op in b.operators for o in op.outputs}
  for k, oa in enumerate(a.operators):
    if models.SUPPORTED_CODES.get(skeleton.code(src, oa)) != opn:
      continue
    ob = b.operators[mp.kept[k]]
    for t0, t1 in zip(list(oa.inputs) + list(oa.outputs), list(ob.inputs) + list(ob.outputs)):
      t0, t1 = int(t0), int(t1)
      if t0 < 0:
        continue
      if a.tensors[t0].type != b.tensors[t1].type:
        return True
      p = producer_of.get(t1)
      if t1 != t0 and p is not None and skeleton.code(mo, p) == BO.DEQUANTIZE:
        d = mo.buffers[b.tensors[int(p.inputs[0])].buffer].data
        if d is not None and len(d) > 0:
          return True
  return False


def has_constant_weight(src, opn):
  sg = src.subgraphs[0]
  for op in sg.operators:
    if models.SUPPORTED_CODES.get(skeleton.code(src, op)) == opn and len(op.inputs) > 1:
      d = src.buffers[sg.tensors[int(op.inputs[1])].buffer].data
      return d is not None and len(d) > 0
  return False


def execute(ctx, rng, variant, sel, cfg, alg, tag, star=False, expect_quantized=None):
  """Quantizes one catalogue model with one config and applies all oracles.  Returns whether the operator was rewritten (None if raised)."""
  spec = models.single_op_model(rng, variant)
  sig = spec.signatures[0]
  cls = 'positive' if sig.get('positive_inputs') else 'normal'
  x = gdata.sample(rng, sig, cls)
  if cls == 'positive':
    x = {k: (v + 0.5).astype(np.float32) for k, v in x.items()}
  datasets = {sig['key']: [x]}
  ref = c07.float_reference(spec, sig, x)
  if isinstance(ref, str):
    ctx.count('generator_reject')
    ctx.count(f'generator_reject:{variant}:{ref}')
    return None
  src = models.read(spec.content)
  name = f'lattice:{tag}'
  recipes.CFGS[name] = (alg, cfg)
  rule = ('.*', '*' if star else sel, name)
  warm = None
  if star and rng.random() < 0.3:
    # the same Quantizer resolved ANOTHER '*' config under the same regex before: a '*' update resets that regex's rules, so
    # the history must not show
    warm = [('.*', '*', str(rng.choice(['drq8_cw', 'wo8a_cw', 'srq8a_cw', 'fp16', 'drq4_cw', 'srq16_tw'])))]
    ctx.count('star_executions_on_a_warmed_quantizer')
  run = common.pipeline(spec, datasets, rules=[rule], warm_rules=warm, warm_other=bool(warm and rng.random() < 0.5))
  opn = [k for k, v in models.SINGLE_OPS.items() if variant in v][0]
  mode = mode_of(cfg, alg)
  feats = {'variant': variant, 'op': opn, 'mode': mode, 'star': star, 'selector': sel}
  base = {'config': str(cfg)[:400], 'algorithm': alg, 'variant': variant}
  if run.phase == 'no_rule_accepted':
    ctx.count('not_accepted_on_catalogue_model')
    return None
  if run.exc is not None:
    ctx.violation('accepted_config_then_quantize_raised', dict(feats, exc=common.exc_signature(run.exc)[:70], phase=run.phase), base)
    ctx.unit(common.digest([variant, tag, star]), False)
    return None
  ctx.count('executions')
  mo = c01.check_returned(ctx, spec, run, name, datasets, src)
  errs, maps, ms, mo2 = skeleton.analyse(spec.content, run.out, ms=src)
  if mo is None or maps is None or any(m is None for m in maps) or [e for e in errs if not e[0].startswith('sig_')]:
    ctx.unit(common.digest([variant, tag, star]), False)
    return None
  if sel in ('INPUT', 'OUTPUT') and not star:
    a_, b_ = src.subgraphs[0], mo2.subgraphs[0]
    la, lb = (a_.inputs, b_.inputs) if sel == 'INPUT' else (a_.outputs, b_.outputs)
    rewritten = any(a_.tensors[int(x)].type != b_.tensors[int(y)].type for x, y in zip(la, lb))
  else:
    rewritten = operator_rewritten(src, mo2, maps, opn)
  ctx.unit(common.digest([variant, tag, star]), rewritten)
  if ctx.sample is None and rewritten:
    ctx.sample = dict(base, mode=mode, selector='*' if star else sel)
  if any(v['kind'] in ('interpreter_error', 'malformed', 'unparseable') for v in ctx.violations[-3:]):
    return rewritten
  if not rewritten:
    return rewritten
  # numerics
  acc = [rule]
  if mode == 'srq':
    c07.evaluate(ctx, spec, src, run, sig, x, ref, cfg.weight_tensor_config.num_bits, cfg.activation_tensor_config.num_bits,
                 cfg.weight_tensor_config.granularity == GR.CHANNELWISE, dict(base, ops=common.describe_model(spec.content, src)), name)
    ctx.count('numeric:static')
  else:
    more = [gdata.sample(rng, sig, cls) for _ in range(2)]
    if cls == 'positive':
      more = [{k: (v + 0.5).astype(np.float32) for k, v in m.items()} for m in more]
    c06.validate(ctx, spec, src, run, acc, {sig['key']: [x] + more}, extra=base)
    ctx.count('numeric:float_compute')
  return rewritten


def variants_for(sel):
  if sel in ('INPUT', 'OUTPUT'):
    return IO_VARIANTS
  return models.SINGLE_OPS.get(sel, [])


def run_case(ctx, case, rng):
  if case < len(SELECTORS):
    sel = SELECTORS[case]
    n_acc = 0
    for pi, point in enumerate(POINTS):
      r = try_accept(ctx, sel, point)
      ctx.count('lattice_points')
      if isinstance(r, str):
        ctx.count(r)
        continue
      n_acc += 1
      ctx.count('accepted')
      ctx.count('accepted:' + sel)
      _, cfg, alg = r
      mode = mode_of(cfg, alg)
      for variant in variants_for(sel):
        rw = execute(ctx, rng, variant, sel, cfg, alg, f'{sel}:{pi}')
        if rw is False:
          spec_has_w = has_constant_weight(models.read(models.single_op_model(np.random.default_rng(1), variant).content), sel) \
              if sel not in ('INPUT', 'OUTPUT') else True
          if mode == 'srq' or spec_has_w:
            ctx.violation('accepted_config_left_operator_unquantized', {'op': sel, 'mode': mode, 'variant': variant},
                          {'config': str(cfg)[:400], 'algorithm': alg})
    ctx.key = 'lattice:' + sel
    ctx.nontrivial = n_acc > 0
    return {}
  # ---- '*' sweep
  pi = (case - len(SELECTORS)) * STAR_STRIDE[ctx.tier]
  point = POINTS[pi]
  try:
    cfg, alg = build(point)
  except ValueError:
    ctx.count('star_config_not_constructible')
    return {'outcome': 'skipped', 'reason': 'config_not_constructible'}
  mode = None
  try:
    mode = mode_of(cfg, alg)
  except Exception:  # pylint: disable=broad-except
    pass
  ctx.count('star_configs')
  for sel, variants in models.SINGLE_OPS.items():
    specific = try_accept(ctx, sel, point)
    accepted = not isinstance(specific, str)
    for variant in variants:
      rw = execute(ctx, rng, variant, sel, cfg, alg, f'star:{pi}', star=True)
      if rw is None:
        continue
      ctx.count('star_comparisons')
      has_w = has_constant_weight(models.read(models.single_op_model(np.random.default_rng(1), variant).content), sel)
      if rw and not accepted:
        ctx.violation('refused_config_applied_under_star', {'op': sel, 'variant': variant}, {'config': str(cfg)[:400], 'algorithm': alg})
      if accepted and not rw and (mode == 'srq' or has_w):
        ctx.violation('accepted_config_left_float_under_star', {'op': sel, 'variant': variant, 'mode': mode}, {'config': str(cfg)[:400], 'algorithm': alg})
  return {}


crash_to_violation = c01.crash_to_violation


def summarize(agg):
  st = agg['stats']
  inc = []
  want = len(SELECTORS) * len(POINTS)
  if st.get('lattice_points', 0) < want:
    inc.append(f"lattice incomplete: {st.get('lattice_points', 0)} of {want} (+ specific checks of the star sweep)")
  if st.get('executions', 0) == 0:
    inc.append('no accepted point executed')
  if st.get('star_comparisons', 0) == 0:
    inc.append('"*" sweep compared nothing')
  acc = {k[len('accepted:'):]: v for k, v in st.items() if k.startswith('accepted:')}
  return {'inconclusive': inc,
          'coverage': {'exhaustive': True, 'lattice_size': want, 'accepted_per_selector': acc,
                       'refused_at_construction': int(st.get('refused_construction', 0)), 'refused_at_update': int(st.get('refused_update', 0)),
                       'star_configs': int(st.get('star_configs', 0))}}
