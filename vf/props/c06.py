"""C06 -- float-compute modes equal the float model run with dequantized constants."""
import numpy as np
from ai_edge_litert import interpreter as tfl
from vf.gen import models, recipes, data as gdata
from vf.oracle import skeleton, resolve, decode, interp, refmodel
from vf.props import c01, common, c03

LEVEL = 'translation_validation'
RULE = ('generated float models x accepted recipes made only of weight-only / float16 / dynamic-range / no_quantize rules (4/8 bit, '
        'symmetric/asymmetric, per-tensor/per-channel, uniform and per-op mixed) x 3 random inputs of varying magnitude.  (a) recipes '
        'without dynamic-range operators: the whole quantized model vs. the INPUT model with each rewritten constant replaced by the decoded '
        '+ dequantized content of the output model (built by the check).  (b) every operator of every case: single-operator replay on the '
        'tensors the quantized run actually preserved, exact for float operators, analytic 8-bit activation-quantisation bound for '
        'dynamic-range operators.  A program = one (model, recipe); distinct by (graph structure, recipe); non-trivial iff >=1 constant was '
        'rewritten')
ASSUMPTIONS = ['float agreement: 1e-5*max(1, |ref|max), scaled by K/16 for operators accumulating dot products of K > 16 terms (float32 summation order differs between interpreters)', 'dynamic-range bound per output channel o: 0.5*(max|x|/127)*sum|w_deq[o]| + 1e-5*max(1,|ref|max) '
               '(max|x| over the whole input tensor bounds every per-batch/per-row scale of the hybrid kernels)',
               'recipes with static-range rules are C07\'s']
TT = models.TT
BO = models.BO
POOL = recipes.DRQ + recipes.WO + ['fp16', 'noq', 'wo4a_cw']


def plan(tier):
  return {'n_cases': 500 if tier == 'quick' else 40000, 'shards': 16}


def reduction_length(ms, sg, op):
  """Longest dot product the operator's float kernel accumulates (elements of its largest constant per output row): float32
  rounding of a sum grows with its length, and two interpreters (whole model vs. single-operator replay) need not add in the same order."""
  k = 1
  for t0 in op.inputs:
    if int(t0) < 0:
      continue
    t = sg.tensors[int(t0)]
    d = ms.buffers[t.buffer].data
    if d is not None and len(d) > 0 and t.shape is not None and len(t.shape) >= 2:
      n = int(np.prod(t.shape))
      k = max(k, n // max(1, int(t.shape[0])), n // max(1, int(t.shape[-1])))
  return k


def float_tol(k):
  return 1e-5 * max(1.0, k / 16.0)


def run_all(content, key, x):
  it = interp.make(content)
  it.allocate_tensors()
  r = it.get_signature_runner(key)
  outs = r(**x)
  sgi = r._subgraph_index  # pylint: disable=protected-access
  vals = {}
  for d in it.get_tensor_details(sgi):
    try:
      vals[d['index']] = np.array(it.get_tensor(d['index'], sgi))
    except ValueError:
      pass
  return outs, vals


def channel_abs_sums(opn, w, adj_y):
  """sum |w| of the weights contributing to output channel o (last axis of the op output)."""
  a = np.abs(w.astype(np.float64))
  if opn in ('FULLY_CONNECTED', 'CONV_2D', 'CONV_2D_TRANSPOSE'):
    return a.reshape(a.shape[0], -1).sum(axis=1)
  if opn == 'DEPTHWISE_CONV_2D':
    return a.reshape(-1, a.shape[-1]).sum(axis=0)
  if opn == 'BATCH_MATMUL':
    # out[..., n] = sum_k x[.., k] w[.., k, n]  (adj_y: w[.., n, k]); take the max over batch dims
    s = a.sum(axis=-1) if adj_y else a.sum(axis=-2)
    return s.reshape(-1, s.shape[-1]).max(axis=0)
  return None


def tied_case(ctx, case, rng):
  """Tied constants (one tensor / one buffer with several consumers) with a float-compute rule per consumer."""
  import re
  from vf.props import c15
  kind = ['same_tensor', 'same_buffer', 'tied_embedding'][case % 3]
  k = 2 if kind == 'tied_embedding' else int(rng.integers(2, 4))
  many = kind == 'same_tensor' and (case // 21) % 2 == 0
  if many:
    k = int(rng.integers(9, 13))        # many readers of one constant (consumer sets beyond 8 entries stop iterating in sorted order)
    ctx.count('tied_constant_with_9_or_more_consumers')
  spec, consumers = c15.build(rng, kind, k)
  datasets = {s['key']: [gdata.sample(rng, s, 'normal') for _ in range(3)] for s in spec.signatures}
  ok, _ = common.admit(spec, datasets)
  if not ok:
    return {'outcome': 'skipped', 'reason': 'generator_reject'}
  src = models.read(spec.content)
  pool = ['drq8_cw', 'drq8_tw', 'wo8a_cw', 'wo8s_tw', 'wo8s_cw', 'wo4s_cw', 'fp16', 'noq', None]
  if many or rng.random() < 0.4:
    # the same stored weights read in different compute modes (dynamic-range by one consumer, weight-only by another)
    pool = recipes.SAME_WEIGHT_FAMILIES[int(rng.integers(len(recipes.SAME_WEIGHT_FAMILIES)))]
    ctx.count('tied_same_weights_mixed_modes')
  picks = [pool[int(rng.integers(len(pool)))] for _ in consumers]
  if many:
    # a SMALL group of weight-only readers among many dynamic-range ones (consumer index sets of 2-4 small integers beyond 8 do not
    # iterate in sorted order in CPython)
    drq_name, wo_name = pool[0], pool[1]
    picks = [drq_name] * len(consumers)
    for i_ in rng.choice(len(consumers), size=int(rng.integers(2, 4)), replace=False):
      picks[int(i_)] = wo_name
  elif len(picks) >= 2 and rng.random() < 0.3:
    # a dynamic-range reader first, an ASYMMETRIC weight-only reader second (different stored bytes for one constant)
    picks[0], picks[1] = str(rng.choice(['drq8_cw', 'drq8_tw'])), str(rng.choice(['wo8a_cw', 'wo4a_tw']))
  rules = [(re.escape(out), sel, str(c)) for (sel, out), c in zip(consumers, picks) if c is not None]
  if not rules:
    return {'outcome': 'skipped', 'reason': 'no_rule'}
  run = common.pipeline(spec, datasets, rules=rules)
  ctx.count('tied_constant_cases')
  if run.phase == 'no_rule_accepted':
    return {'outcome': 'skipped', 'reason': 'no_rule_accepted'}
  if run.exc is not None:
    ctx.count('tied_constant_rejected')
    return {'outcome': 'skipped', 'reason': 'quantize_raised'}
  ctx.count('tied_constant_returned')
  return validate(ctx, spec, src, run, run.accepted, datasets)


def run_case(ctx, case, rng):
  if case % 7 == 3:
    return tied_case(ctx, case, rng)
  spec = models.model_for_case(rng, multi_sub_p=0.1, template_p=0.2)
  if case % 128 == 21:
    spec = models.t_very_deep(rng)        # directed: more than 255 operators once DEQUANTIZE operators are inserted
    ctx.count('very_deep_models')
  datasets = {s['key']: [gdata.sample(rng, s, str(rng.choice(['normal', 'scaled', 'positive']))) for _ in range(3)] for s in spec.signatures}
  ok, _ = common.admit(spec, datasets)
  if not ok:
    return {'outcome': 'skipped', 'reason': 'generator_reject'}
  src = models.read(spec.content)
  if case % 4 == 0:
    names = ['default_af32w8float_recipe.json', 'default_af32w4float_recipe.json', 'dynamic_wi8_afp32_recipe.json']
    rules = recipes.SHIPPED_AS_RULES[names[(case // 4) % 3]]
  else:
    wops = [o for o in recipes.op_names_in(src) if o in c03.WEIGHT_OPS]
    rules = recipes.random_rules(rng, src, safe_regex=True, cfg_pool=POOL, star_p=0.5,
                                 selectors=(['*'] * 2 + wops * 2) if wops else None)
  if 'more_than_255_operators' in spec.classes:
    rules = [('.*', '*', str(rng.choice(['wo8a_cw', 'wo8s_tw', 'wo4s_cw', 'fp16'])))]      # one DEQUANTIZE per FULLY_CONNECTED
  run = common.pipeline(spec, datasets, rules=rules)
  if run.phase == 'no_rule_accepted':
    return {'outcome': 'skipped', 'reason': 'no_rule_accepted'}
  if run.exc is not None:
    ctx.count('raised:' + common.exc_signature(run.exc)[:60])
    return {'outcome': 'skipped', 'reason': 'quantize_raised'}
  return validate(ctx, spec, src, run, run.accepted, datasets)


def validate(ctx, spec, src, run, acc, datasets, extra=None):
  """Translation validation of one returned float-compute model (also used by C13)."""
  errs, maps, ms, mo = skeleton.analyse(spec.content, run.out, ms=src)
  if [e for e in errs if not e[0].startswith('sig_')] or maps is None or any(m is None for m in maps):
    return {'outcome': 'skipped', 'reason': 'skeleton_broken_left_to_C02'}
  ov = refmodel.overrides(ms, mo, maps)
  base = dict({'rules': acc, 'ops': common.describe_model(spec.content, src)}, **(extra or {}))
  if ov is None:
    ctx.violation('rewritten_constant_inconsistent_between_consumers', {}, base)
    return {}
  ref = recipes.reference_for(acc)
  # expected mode per operator
  modes = []
  for si, a in enumerate(ms.subgraphs):
    name = lambda t: a.tensors[int(t)].name.decode()
    row = []
    for oa in a.operators:
      opn = models.SUPPORTED_CODES.get(skeleton.code(ms, oa))
      if opn is None:
        row.append((None, 'float', None))
        continue
      alg, cfg, _ = ref.resolve(opn, resolve.op_scope([name(o) for o in oa.outputs if int(o) != -1]))
      row.append((opn, c03.mode_of(alg, cfg), cfg))
    modes.append(row)
  has_drq = any(m == 'drq' for row in modes for _, m, _ in row)
  ctx.unit(common.model_key(spec, run.recipe), nontrivial=len(ov) > 0)
  ctx.count('programs')
  ctx.count('rewritten_constants', len(ov))
  if ctx.sample is None and ov:
    ctx.sample = dict(base, rewritten_constants=len(ov), has_dynamic_range_op=has_drq)

  def go():
    whole = refmodel.whole_model(spec.content, ov) if not has_drq else None
    for s in spec.signatures:
      si = s['subgraph']
      a, b = ms.subgraphs[si], mo.subgraphs[si]
      mp = maps[si]
      for x in datasets[s['key']]:
        try:
          q_outs, vals = run_all(run.out, s['key'], x)
        except Exception as e:  # pylint: disable=broad-except
          ctx.count('quantized_model_not_runnable_left_to_C01')
          return
        # ---- (a) whole-model translation validation
        if whole is not None:
          r_outs, _ = run_all(whole, s['key'], x)
          for k in r_outs:
            ctx.count('outputs_compared')
            refv = r_outs[k].astype(np.float64)
            got = q_outs[k].astype(np.float64)
            # relative to the largest magnitude any float tensor of the run reaches: a result obtained by cancellation carries
            # the rounding of its (larger) terms
            mags = [float(np.max(np.abs(v_))) for v_ in vals.values() if v_.dtype == np.float32 and v_.size and np.all(np.isfinite(v_))]
            A = max([1.0, float(np.max(np.abs(refv))) if refv.size else 1.0] + mags)
            err = float(np.max(np.abs(refv - got))) / A if refv.size else 0.0
            ctx.observe_max('whole_model_rel_err', err)
            kmax = max([reduction_length(ms, a, o_) for o_ in a.operators] or [1])
            if not (err <= float_tol(kmax)):
              ctx.violation('output_differs_from_reference_program', {'scope': 'whole_model'}, dict(base, output=k, rel_err=err))
        # ---- (b) per-operator replay
        for k, oa in enumerate(a.operators):
          ob = b.operators[mp.kept[k]]
          opn, mode, cfg = modes[si][k]
          const_override = {}
          for t0 in oa.inputs:
            if (si, int(t0)) in ov:
              const_override[int(t0)] = ov[(si, int(t0))]
          try:
            rep, remap = refmodel.single_op_model(ms, a, oa, const_override)
            itr = tfl.Interpreter(model_content=rep, experimental_op_resolver_type=tfl.OpResolverType.BUILTIN_WITHOUT_DEFAULT_DELEGATES)
            itr.allocate_tensors()
            in_idx = {d['index'] for d in itr.get_input_details()}
            xin = None
            nonfinite_in = False
            for t0, t1 in zip(oa.inputs, ob.inputs):
              t0, t1 = int(t0), int(t1)
              if t0 != -1 and remap[t0] in in_idx:
                if vals[t1].dtype.kind == 'f' and not np.all(np.isfinite(vals[t1])):
                  nonfinite_in = True     # garbage written by an upstream kernel (KF-DWCONV-DRQ-TENSORWISE) is that operator's matter
                itr.set_tensor(remap[t0], vals[t1])
                if xin is None and vals[t1].dtype == np.float32:
                  xin = vals[t1]
            itr.invoke()
          except Exception as e:  # pylint: disable=broad-except
            ctx.count('replay_unavailable:' + (opn or 'OTHER'))
            continue
          if nonfinite_in:
            ctx.count('replay_inputs_nonfinite_skipped')
            continue
          for t0, t1 in zip(oa.outputs, ob.outputs):
            refv = itr.get_tensor(remap[int(t0)]).astype(np.float64)
            got = vals[int(t1)].astype(np.float64)
            if refv.size == 0:
              continue
            if not (np.all(np.isfinite(refv)) and np.all(np.isfinite(got))) and common.has_hybrid_tensorwise_dwconv(run.out):
              # astronomically large garbage from the non-reproducible hybrid DEPTHWISE_CONV kernel (KF-DWCONV-DRQ-TENSORWISE) overflows
              # in a later float operator: that operator is not what is wrong
              ctx.count('replay_overflow_downstream_of_hybrid_dwconv_skipped')
              continue
            A = max(1.0, float(np.max(np.abs(refv))))
            diff = np.abs(refv - got)
            f = {'op': opn or 'OTHER', 'mode': mode}
            if mode == 'drq' and opn != 'EMBEDDING_LOOKUP':
              wt0 = int(oa.inputs[1])
              w = ov.get((si, wt0))
              ctx.count('ops_replayed:drq:' + opn)
              if w is None or xin is None:
                ctx.count('drq_without_rewritten_weight')
                continue
              adj = bool(oa.builtinOptions.adjY) if opn == 'BATCH_MATMUL' else False
              S_o = channel_abs_sums(opn, w, adj)
              bound = 0.5 * (float(np.max(np.abs(xin))) / 127.0) * S_o + 1e-5 * A
              ratio = float(np.max(diff / np.broadcast_to(bound, diff.shape)))
              ctx.observe_max('drq_err_over_bound', ratio)
              if not (ratio <= 1.0):
                gcfg = cfg.weight_tensor_config
                ctx.violation('dynamic_range_operator_exceeds_analytic_bound',
                              dict(f, weight_bits=gcfg.num_bits, granularity=str(gcfg.granularity.value)),
                              dict(base, op_index=k, err_over_bound=ratio, rel_err=float(diff.max()) / A))
            else:
              ctx.count('ops_replayed:' + mode)
              # float32 rounding of a dot product is relative to its TERMS (|x| * |w| summed), not to a result that may cancel
              cmax = 0.0
              for t0_ in oa.inputs:
                if int(t0_) >= 0:
                  c_ = const_override.get(int(t0_))
                  if c_ is None:
                    d_ = ms.buffers[a.tensors[int(t0_)].buffer].data
                    if d_ is not None and len(d_) > 0 and a.tensors[int(t0_)].type == TT.FLOAT32:
                      c_ = np.frombuffer(bytes(d_), dtype=np.float32)
                  if c_ is not None and np.size(c_):
                    cmax = max(cmax, float(np.max(np.abs(c_))))
              xmax = float(np.max(np.abs(xin))) if xin is not None and xin.size else 1.0
              kk = reduction_length(ms, a, oa)
              A = max(A, kk * xmax * cmax if cmax else 0.0)
              err = float(diff.max()) / A
              ctx.observe_max('float_op_rel_err', err)
              if not (err <= float_tol(kk)):
                ctx.violation('float_compute_operator_differs_from_replay', f, dict(base, op_index=k, rel_err=err))
  ctx.risky('interp.c06', go, common.risky_info(run, spec, datasets, {'rules': acc}))
  return {}


crash_to_violation = c01.crash_to_violation


def summarize(agg):
  st = agg['stats']
  inc = []
  for k in ('outputs_compared', 'ops_replayed:wo', 'ops_replayed:fp16', 'ops_replayed:float'):
    if st.get(k, 0) == 0:
      inc.append(f'{k} is zero')
  if not any(k.startswith('ops_replayed:drq:') for k in st):
    inc.append('no dynamic-range operator replayed')
  return {'inconclusive': inc,
          'coverage': {'programs': int(st.get('programs', 0)),
                       'disagreements_checked': int(st.get('outputs_compared', 0) + sum(v for k, v in st.items() if k.startswith('ops_replayed'))),
                       'explanation': 'programs = (model, recipe) pairs validated; disagreements_checked = whole-model outputs + replayed operator outputs compared'}}
