"""C18 -- validate() reports the true per-tensor error, once per tensor."""
import collections
import numpy as np
from ai_edge_quantizer import quantizer as aeq, model_validator
from ai_edge_quantizer.utils import validation_utils
from vf.gen import models, recipes, data as gdata
from vf.oracle import interp
from vf.props import common

LEVEL = 'exploration'
RULE = ('generated float models (1-3 signatures) and their quantized versions under shipped and random recipes x 1-4 test samples x '
        'both metrics x every signature: Quantizer.validate() against the check\'s own two interpreters (all tensors preserved, own '
        'dequantisation, own metric, mean over samples) -- every declared common tensor exactly once, in the right group, with the right '
        'value; model vs. itself must report 0; metric axioms on random arrays incl. NaN/inf.  A unit is one (model pair, metric, '
        'signature); distinct by digest; non-trivial iff the target model contains >=1 quantized tensor')
ASSUMPTIONS = ['dynamic-range TENSORWISE rules excluded and non-reproducible tensors skipped: the DEPTHWISE_CONV_2D kernel of KF-DWCONV-DRQ-TENSORWISE returns different values per interpreter instance', '16-bit activation recipes only on models without ADD/SUB (the int16 ADD/SUB interpreter failures are C01/C13 findings)', '"tensor of the model" = tensor declared in the flatbuffer subgraph; interpreter scratch tensors are only checked for "filed at most once"',
               'test inputs of quantized model inputs are on the quantization grid with |q| <= 127',
               'value tolerance rel 1e-4 + abs 1e-9']
TT = models.TT


def plan(tier):
  return {'n_cases': 260 if tier == 'quick' else 20000, 'shards': 16}


def mse(t, r):
  t = np.nan_to_num(np.asarray(t, dtype=np.float32).ravel(), nan=1e-9, neginf=-1e9, posinf=1e9).astype(np.float64)
  r = np.nan_to_num(np.asarray(r, dtype=np.float32).ravel(), nan=1e-9, neginf=-1e9, posinf=1e9).astype(np.float64)
  return 0.0 if t.size == 0 else float(np.mean((t - r) ** 2))


def mdr(t, r):
  t = np.nan_to_num(np.asarray(t, dtype=np.float32).ravel(), nan=1e-9, neginf=-1e9, posinf=1e9).astype(np.float64)
  r = np.nan_to_num(np.asarray(r, dtype=np.float32).ravel(), nan=1e-9, neginf=-1e9, posinf=1e9).astype(np.float64)
  return 0.0 if t.size == 0 else float(np.median(np.abs(t - r) / (np.abs(r) + 1e-6)))


OWN = {'mse': mse, 'median_diff_ratio': mdr}


def deq(det, v):
  qp = det['quantization_parameters']
  sc = np.asarray(qp['scales'], dtype=np.float64)
  if sc.size == 0 or not np.issubdtype(v.dtype, np.integer):
    return np.asarray(v, dtype=np.float64) if v.dtype.kind in 'fiub' else v
  zp = np.asarray(qp['zero_points'], dtype=np.int64)
  if sc.size > 1:
    shp = [1] * v.ndim
    shp[int(qp['quantized_dimension'])] = -1
    sc, zp = sc.reshape(shp), zp.reshape(shp)
  return (v.astype(np.int64) - zp).astype(np.float64) * sc


REFERENCE_KERNELS = [False]


def own_tensors(content, key, x):
  it = interp.make(content, reference=REFERENCE_KERNELS[0])
  it.allocate_tensors()
  r = it.get_signature_runner(key)
  feed = {}
  for arg, d in r.get_input_details().items():
    v = x[arg]
    sc = d['quantization_parameters']['scales']
    if len(sc) and np.issubdtype(d['dtype'], np.integer):
      zp = int(d['quantization_parameters']['zero_points'][0])
      ii = np.iinfo(d['dtype'])
      v = np.clip(np.rint(v.astype(np.float64) / float(sc[0])) + zp, ii.min, ii.max).astype(d['dtype'])
    feed[arg] = v
  r(**feed)
  return {n: deq(d, v) for n, (d, v) in interp.all_tensors(it, r._subgraph_index).items()}  # pylint: disable=protected-access


def grid_inputs(qcontent, key, ds):
  """Moves float test inputs onto the quantization grid of quantized model inputs (|q| <= 127)."""
  it = interp.make(qcontent)
  r = it.get_signature_runner(key)
  out = []
  for x in ds:
    y = {}
    for arg, d in r.get_input_details().items():
      sc = d['quantization_parameters']['scales']
      if len(sc) and np.issubdtype(d['dtype'], np.integer):
        s, z = float(sc[0]), int(d['quantization_parameters']['zero_points'][0])
        q = np.clip(np.rint(x[arg].astype(np.float64) / s) + z, -127, 127)
        y[arg] = ((q - z) * s).astype(np.float32)
      else:
        y[arg] = x[arg]
    out.append(y)
  return out


def groups_of(res):
  return {'inputs': res.input_tensors, 'outputs': res.output_tensors, 'constants': res.constant_tensors,
          'intermediates': res.intermediate_tensors}


def check_result(ctx, res, ref_model, ref_content, tgt_content, sig, ds, metric, base, expect_zero=False):
  sg = ref_model.subgraphs[sig['subgraph']]
  declared = {}
  for ti, t in enumerate(sg.tensors):
    d = ref_model.buffers[t.buffer].data
    declared[t.name.decode()] = 'constants' if (d is not None and len(d) > 0) else 'intermediates'
  sdef = [s for s in ref_model.signatureDefs if s.signatureKey.decode() == sig['key']][0]
  for tm in sdef.inputs:
    declared[sg.tensors[tm.tensorIndex].name.decode()] = 'inputs'
  for tm in sdef.outputs:
    n = sg.tensors[tm.tensorIndex].name.decode()
    if declared.get(n) != 'inputs':
      declared[n] = 'outputs'
  g = groups_of(res)
  seen = collections.Counter(n for grp in g.values() for n in grp)
  f = {'metric': metric}
  for n, c in seen.items():
    if c > 1:
      ctx.violation('tensor_filed_twice', f, dict(base, tensor=n))
  tgt_model = models.read(tgt_content)
  tgt_names = {t.name.decode() for t in tgt_model.subgraphs[sig['subgraph']].tensors}
  # own values
  mine = collections.defaultdict(list)
  for x in ds:
    a = own_tensors(ref_content, sig['key'], x)
    b = own_tensors(tgt_content, sig['key'], x)
    for n in a:
      if n in b and n in declared and n in tgt_names and getattr(a[n], 'dtype', None) is not None and a[n].dtype != object:
        if a[n].size != b[n].size:
          mine[n].append(None)
        else:
          mine[n].append(OWN[metric](b[n], a[n]))
  for n, grp_want in declared.items():
    if n not in tgt_names or n not in mine:
      continue
    ctx.count('tensors_compared')
    ctx.count('group:' + grp_want)
    where = [k for k, grp in g.items() if n in grp]
    if not where:
      ctx.violation('tensor_missing', dict(f, group=grp_want), dict(base, tensor=n))
      continue
    if where[0] != grp_want:
      ctx.violation('tensor_in_wrong_group', dict(f, want=grp_want, got=where[0]), dict(base, tensor=n))
    val = g[where[0]][n]
    if any(v is None for v in mine[n]):
      continue
    want = float(np.mean(mine[n]))
    if not (val >= 0):
      ctx.violation('negative_or_nan_value', f, dict(base, tensor=n, value=val))
    if expect_zero and val != 0:
      ctx.violation('self_comparison_nonzero', f, dict(base, tensor=n, value=val))
    if abs(val - want) > 1e-4 * abs(want) + 1e-9:
      # is the tensor reproducible at all?  (a kernel reading uninitialised memory gives different values per interpreter instance)
      again = []
      for x in ds:
        a2 = own_tensors(ref_content, sig['key'], x)
        b2 = own_tensors(tgt_content, sig['key'], x)
        if n in a2 and n in b2 and a2[n].size == b2[n].size:
          again.append(OWN[metric](b2[n], a2[n]))
      want2 = float(np.mean(again)) if again else want
      if abs(want2 - want) > 1e-6 * abs(want) + 1e-12:
        ctx.count('nonreproducible_tensor_skipped')
        continue
      if common.has_hybrid_tensorwise_dwconv(tgt_content) or common.has_hybrid_tensorwise_dwconv(ref_content):
        ctx.count('nonreproducible_kernel_pattern_skipped')     # KF-DWCONV-DRQ-TENSORWISE: two runs may agree by chance, a third not
        continue
      ctx.violation('value_differs_from_own_metric', dict(f, group=grp_want), dict(base, tensor=n, reported=val, own=want))


def axioms(ctx, rng):
  for metric in ('mse', 'median_diff_ratio'):
    fn = validation_utils.get_validation_func(metric)
    for _ in range(20):
      n = int(rng.integers(0, 12))
      a = (rng.normal(size=n) * float(rng.choice([1e-3, 1, 1e3]))).astype(np.float32)
      b = (rng.normal(size=n) * float(rng.choice([1e-3, 1, 1e3]))).astype(np.float32)
      if n and rng.random() < 0.3:
        a[int(rng.integers(n))] = rng.choice([np.nan, np.inf, -np.inf])
      ctx.count('axiom_evaluations')
      try:
        v_ab, v_ba, v_aa = float(fn(a, b)), float(fn(b, a)), float(fn(a, a))
      except Exception as e:  # pylint: disable=broad-except
        ctx.violation('metric_raised', {'metric': metric}, str(e)[:200])
        continue
      if not (v_ab >= 0 and v_ba >= 0) or not np.isfinite(v_ab):
        ctx.violation('metric_negative_or_not_finite', {'metric': metric}, {'a': a.tolist(), 'b': b.tolist(), 'v': v_ab})
      if v_aa != 0:
        ctx.violation('metric_nonzero_on_equal_arguments', {'metric': metric}, {'a': a.tolist(), 'v': v_aa})
      if metric == 'mse' and abs(v_ab - v_ba) > 1e-6 * abs(v_ab):
        ctx.violation('mse_not_symmetric', {}, {'a': a.tolist(), 'b': b.tolist()})
      if abs(v_ab - OWN[metric](a, b)) > 1e-4 * abs(v_ab) + 1e-9:
        ctx.violation('metric_differs_from_definition', {'metric': metric}, {'a': a.tolist(), 'b': b.tolist(), 'got': v_ab, 'own': OWN[metric](a, b)})


def run_case(ctx, case, rng):
  axioms(ctx, rng)
  n_sub = 1 if rng.random() < 0.75 else 2
  spec = models.model_for_case(rng, multi_sub_p=0.0) if n_sub == 1 else models.rand_model(rng, n_sub=n_sub)
  n = int(rng.integers(1, 5))
  datasets = {s['key']: gdata.dataset(rng, s, n) for s in spec.signatures}
  if case % 16 == 9:
    # directed: test samples of DIFFERENT shapes (variable sequence length); the per-tensor value is still the plain mean of
    # the per-sample metric
    spec = models.t_sequence(rng)
    n = int(rng.integers(2, 5))
    sig0 = spec.signatures[0]
    arg0 = sig0['inputs'][0][0]
    datasets = {sig0['key']: [{arg0: rng.normal(size=(1, int(rng.choice([1, 2, 3, 7])), 8)).astype(np.float32)} for _ in range(n)]}
    datasets[sig0['key']][0] = {arg0: rng.normal(size=(1, 2, 8)).astype(np.float32)}
    ctx.count('variable_shape_test_sets')
  ok, _ = common.admit(spec, datasets)
  if not ok:
    return {'outcome': 'skipped', 'reason': 'generator_reject'}
  src = models.read(spec.content)
  metric = 'mse' if rng.random() < 0.5 else 'median_diff_ratio'
  REFERENCE_KERNELS[0] = bool(rng.random() < 0.2)   # validate(use_reference_kernel=True): the check's own interpreters follow
  ctx.count('reference_kernel_cases' if REFERENCE_KERNELS[0] else 'optimized_kernel_cases')
  base = {'ops': common.describe_model(spec.content, src), 'metric': metric, 'n_samples': n}
  # --- model vs itself
  if case % 4 == 0:
    try:
      res = model_validator.compare_model(spec.content, spec.content, datasets, metric, validation_utils.get_validation_func(metric),
                                          use_reference_kernel=REFERENCE_KERNELS[0])
    except Exception as e:  # pylint: disable=broad-except
      res = None
      ctx.violation('validate_raised', {'exc': common.exc_signature(e)[:80], 'metric': metric, 'pair': 'self',
                                        'duplicate_output': 'duplicate_output' in spec.classes,
                                        'input_is_also_output': 'input_is_also_output' in spec.classes}, base)
    for s in spec.signatures if res is not None else []:
      check_result(ctx, res.get_signature_comparison_result(s['key']), src, spec.content, spec.content, s, datasets[s['key']],
                   metric, dict(base, pair='self'), expect_zero=True)
    ctx.count('self_comparisons')
    ctx.unit(common.digest([common.sha(spec.content), 'self', metric]), False)
  # --- quantized versions
  k = case % 3
  # 16-bit activations only where the int16 ADD/SUB kernels (KF-INT16-ADDSUB-*, decided by C01/C13) cannot be involved
  allow16 = not any(o in ('ADD', 'SUB') for o in (recipes.op_names_in(src) or []))
  if allow16:
    ctx.count('models_admitting_16bit_activations')
  if k == 0:
    ship = [n for n in recipes.SHIPPED if allow16 or 'a16' not in n]
    name = ship[(case // 3) % len(ship)]
    rules = recipes.SHIPPED_AS_RULES[name]
  else:
    pool = [c for c in recipes.GOOD if (allow16 or not c.startswith('srq16')) and c != 'drq8_tw']
    rules = recipes.random_rules(rng, src, safe_regex=True, cfg_pool=pool)
  run = common.pipeline(spec, datasets, rules=rules)
  if run.phase == 'no_rule_accepted' or run.exc is not None:
    ctx.count('quantize_unavailable')
    return {}
  d = dict(base, rules=run.accepted)

  def go():
    try:
      test = {s['key']: grid_inputs(run.out, s['key'], datasets[s['key']]) for s in spec.signatures}
      for s in spec.signatures:
        own_tensors(run.out, s['key'], test[s['key']][0])
    except Exception as e:  # pylint: disable=broad-except
      ctx.count('target_not_runnable_left_to_C01')
      return
    try:
      one_shot = bool(case % 5 == 3)      # the API takes Iterables: hand it generators that can be walked once
      if one_shot:
        ctx.count('validate_calls_with_one_shot_iterators')
      res = run.qt.validate({k_: (x_ for x_ in v_) for k_, v_ in test.items()} if one_shot else test, metric,
                            use_reference_kernel=REFERENCE_KERNELS[0])
    except Exception as e:  # pylint: disable=broad-except
      ctx.violation('validate_raised', {'exc': common.exc_signature(e)[:80], 'metric': metric,
                                        'duplicate_output': 'duplicate_output' in spec.classes,
                                        'input_is_also_output': 'input_is_also_output' in spec.classes}, d)
      return
    qm = models.read(run.out)
    n_q = sum(1 for sg in qm.subgraphs for t in sg.tensors if t.quantization is not None and t.quantization.scale is not None)
    for s in spec.signatures:
      check_result(ctx, res.get_signature_comparison_result(s['key']), src, spec.content, run.out, s, test[s['key']], metric, d)
      ctx.unit(common.digest([common.sha(run.out), metric, s['key'], test]), n_q > 0)
    ctx.count('pairs_validated')
    for sg in qm.subgraphs:
      for t in sg.tensors:
        if t.quantization is not None and t.quantization.scale is not None:
          ctx.count('quantized_dtype:' + str(t.type))
    if ctx.sample is None:
      ctx.sample = dict(d, signatures=len(spec.signatures), quantized_tensors=n_q)
  ctx.risky('interp.validate', go, common.risky_info(run, spec, datasets, {'rules': run.accepted}))
  return {}


from vf.props import c01
crash_to_violation = c01.crash_to_violation


def summarize(agg):
  st = agg['stats']
  inc = []
  for k in ('tensors_compared', 'pairs_validated', 'self_comparisons', 'group:inputs', 'group:outputs', 'group:constants',
            'group:intermediates', 'axiom_evaluations'):
    if st.get(k, 0) == 0:
      inc.append(f'{k} is zero')
  return {'inconclusive': inc}
