"""C11 -- recipe resolution follows the documented last-applicable-rule-wins model."""
import itertools
import json
import numpy as np
from ai_edge_quantizer import recipe_manager, qtyping
from vf.gen import recipes
from vf.oracle import resolve

LEVEL = 'exploration'
OP = qtyping.TFLOperationName
C = qtyping.OpQuantizationConfig

REGEXES = ['.*', 'a/', 'a/b;', '^c']
SELS = ['*', 'FULLY_CONNECTED', 'TANH']
CFG_NAMES = ['srq8a_cw', 'drq8_cw', 'wo4s_cw', 'bad_drq8_explicit', 'fp16', 'noq']   # the unsupported letter is ONE FIELD away from a supported one
ALPHABET = [(rx, op, c) for rx in REGEXES for op in SELS for c in CFG_NAMES]
SCOPES = ['a/b;', 'a/c;', 'c;', 'x/a/b;d;']
QOPS = ['FULLY_CONNECTED', 'TANH', 'CONV_2D', 'EMBEDDING_LOOKUP']

WIDE_REGEXES = REGEXES + ['b;$', '^a/b;$', '(a/|c)', 'x/', 'd;', '^x/a', 'zz', 'a/c', '']
WIDE_SELS = [o.value for o in OP]
WIDE_SCOPES = SCOPES + ['', 'zz;', 'a/b;a/c;', 'c/a/;']
WIDE_QOPS = ['FULLY_CONNECTED', 'TANH', 'CONV_2D', 'EMBEDDING_LOOKUP', 'INPUT', 'OUTPUT', 'BATCH_MATMUL', 'ADD', 'SOFTMAX']
CHUNKS = 64

RULE = ('exhaustive: every history of add operations up to length L (L=2 quick, 3 thorough) over a 72-letter '
        'alphabet (4 regexes x {*,FULLY_CONNECTED,TANH} x {static, dynamic, 4-bit weight-only, unsupported, float16, '
        'no_quantize}), each queried at 4 operators x 4 scopes; random: histories of length 4-10 over a wide alphabet '
        '(13 regexes x all 25 selectors x all catalogue configs) including load operations, queried at 9 operators x 8 '
        'scopes.  Every query is issued twice, in two orders, and on a manager re-created from the exported recipe.  '
        'distinct by the history itself; non-trivial iff at least one query resolves to a quantizing rule')
ASSUMPTIONS = ["the support check of the statement is read independently from the declared JSON policy (the library's own check_op_quantization_config is what is being observed; C13 compares the two over the whole lattice)",
               'load lists are built from rules that are individually acceptable (failed-load semantics is not part of the statement)']


def n_exhaustive(tier):
  L = 2 if tier == 'quick' else 3
  return sum(len(ALPHABET) ** l for l in range(1, L + 1))


def plan(tier):
  return {'n_cases': CHUNKS * 2, 'shards': 16}


def hist_at(idx):
  """idx-th history of the length-ordered enumeration."""
  l = 1
  while idx >= len(ALPHABET) ** l:
    idx -= len(ALPHABET) ** l
    l += 1
  out = []
  for _ in range(l):
    out.append(ALPHABET[idx % len(ALPHABET)])
    idx //= len(ALPHABET)
  return [('add',) + h for h in reversed(out)]


def norm(res):
  alg, cfg = res[0], res[1]
  alg = alg.value if hasattr(alg, 'value') else alg
  return alg, (C() if cfg is None else cfg)


def entry_json(rx, sel, name):
  alg, cfg = recipes.CFGS[name]
  return {'regex': rx, 'operation': sel, 'algorithm_key': alg, 'op_config': (cfg or C()).to_dict()}


POLICY_NOW = [None]      # JSON text of the policy currently registered (None = the default one)


def _policy_variant(drop_op):
  """The default JSON policy without `drop_op` in any config group (what a user-supplied policy file for Quantizer.load_config_policy
  could say)."""
  from ai_edge_quantizer import default_policy
  d = json.loads(default_policy.DEFAULT_JSON_POLICY)
  d['ops_per_config'] = {k: [o for o in v if o != drop_op] for k, v in d['ops_per_config'].items()}
  return json.dumps(d)


def _register_policy(json_text):
  """What Quantizer.load_config_policy(file) does with the file's text."""
  from ai_edge_quantizer import default_policy, algorithm_manager
  text = json_text if json_text is not None else default_policy.DEFAULT_JSON_POLICY
  algorithm_manager.register_config_check_policy_func(
      algorithm_manager.AlgorithmName.MIN_MAX_UNIFORM_QUANT, default_policy.update_default_config_policy(text))
  POLICY_NOW[0] = json_text


def _supported_now(alg, op, cfg):
  """Support predicate of the statement under the policy registered NOW, read independently from its JSON text."""
  if POLICY_NOW[0] is None:
    return recipes.declared_supported(alg, op, cfg)
  from vf.oracle import policy
  return policy.supported(POLICY_NOW[0], str(getattr(alg, 'value', alg)), str(getattr(op, 'value', op)), cfg)


def run_history(ctx, hist, qops, scopes, rng=None):
  try:
    return _run_history(ctx, hist, qops, scopes, rng)
  finally:
    if POLICY_NOW[0] is not None:
      _register_policy(None)        # the registry is process-wide: never leak a variant into the next history


def _run_history(ctx, hist, qops, scopes, rng=None):
  rm = recipe_manager.RecipeManager()
  ref = resolve.RefRecipe(_supported_now)   # read from the declared JSON policy (vf/oracle/policy.py), never the library's own check
  for step in hist:
    if step[0] == 'policy':
      # the support check CHANGES in the middle of a history (Quantizer.load_config_policy): rules stay stored, applicability follows
      _register_policy(None if step[1] is None else _policy_variant(step[1]))
      ctx.count('policy_changes')
      continue
    if step[0] == 'add':
      _, rx, sel, name = step
      alg, cfg = recipes.CFGS[name]
      try:
        rm.add_quantization_config(rx, OP(sel), cfg, alg)
        acc = True
      except ValueError:
        acc = False
      want = ref.add(rx, sel, alg, cfg, name)
      if acc != want:
        return ('accept_mismatch', {'step': step, 'library_accepted': acc, 'reference_accepts': want})
    else:
      entries = step[1]
      try:
        rm.load_quantization_recipe(json.loads(json.dumps([entry_json(*e) for e in entries])))
      except Exception as e:  # pylint: disable=broad-except
        return ('load_raised', {'exc': f'{type(e).__name__}: {str(e)[:100]}', 'entries': entries})
      ref.load([(rx, sel) + recipes.CFGS[name] + (name,) for rx, sel, name in entries])
  queries = [(o, s) for o in qops for s in scopes]
  first = {}
  resolved_any = False
  for o, s in queries:
    got = norm(rm.get_quantization_configs(OP(o), s))
    want = norm(ref.resolve(o, s))
    ctx.count('queries')
    first[(o, s)] = got
    if got != want:
      return ('resolve_mismatch', {'op': o, 'scope': s, 'got': [got[0], str(got[1])[:200]], 'want': [want[0], str(want[1])[:200]]})
    if got[0] != 'no_quantize':
      resolved_any = True
  # purity: same queries, reversed order, same manager
  for o, s in reversed(queries):
    if norm(rm.get_quantization_configs(OP(o), s)) != first[(o, s)]:
      return ('resolution_not_pure', {'op': o, 'scope': s})
  if any(st[0] == 'policy' for st in hist):
    # rules accepted under an earlier policy are re-validated (and may be refused) when the export is loaded: the reload
    # clause is about one fixed support check
    ctx.count('histories_with_policy_change')
    return ('ok', resolved_any)
  # a manager re-created from the exported recipe resolves identically
  try:
    rm2 = recipe_manager.RecipeManager()
    rm2.load_quantization_recipe(json.loads(json.dumps(rm.get_quantization_recipe())))
  except Exception as e:  # pylint: disable=broad-except
    return ('reload_raised', {'exc': f'{type(e).__name__}: {str(e)[:100]}'})
  for o, s in queries:
    if norm(rm2.get_quantization_configs(OP(o), s)) != first[(o, s)]:
      return ('reloaded_manager_resolves_differently', {'op': o, 'scope': s})
  # the exported rule list equals the reference's rule list
  exp = [(e['regex'], e['operation'].value if hasattr(e['operation'], 'value') else e['operation'],
          e['algorithm_key'].value if hasattr(e['algorithm_key'], 'value') else e['algorithm_key'])
         for e in rm.get_quantization_recipe()]
  want_list = [(rx, sel, alg) for rx, sel, alg, cfg, tag in ref.flat()]
  if exp != want_list:
    return ('rule_list_mismatch', {'got': exp, 'want': want_list})
  return ('ok', resolved_any)


def run_case(ctx, case, rng):
  bad = 0
  if case < CHUNKS:
    total = n_exhaustive(ctx.tier)
    lo = total * case // CHUNKS
    hi = total * (case + 1) // CHUNKS
    for idx in range(lo, hi):
      hist = hist_at(idx)
      r = run_history(ctx, hist, QOPS, SCOPES)
      ctx.count('histories')
      ctx.count('exhaustive_histories')
      if r[0] == 'ok':
        ctx.count('nontrivial_histories', 1 if r[1] else 0)
      else:
        bad += 1
        if bad <= 3:
          ctx.violation(r[0], {'exhaustive': True, 'len': len(hist)}, {'history': hist, 'info': r[1]})
      if ctx.sample is None and idx % 997 == 0:
        ctx.sample = {'history': hist, 'queries': len(QOPS) * len(SCOPES)}
    return {}
  n = 40 if ctx.tier == 'quick' else 3000
  cfg_names = list(recipes.CFGS)
  seen = set()
  for it in range(n):
    hist = []
    # every other history is "dense": 2 regexes x 4 selectors, so that deep interactions under ONE regex occur
    # (re-adding an operator, '*' after several specific rules, unsupported rules shadowing earlier ones)
    dense = it % 2 == 1
    rxs = [str(r) for r in rng.choice(WIDE_REGEXES, size=2, replace=False)] if dense else WIDE_REGEXES
    sels = ['*', 'FULLY_CONNECTED', 'TANH', 'CONV_2D'] if dense else WIDE_SELS
    for _ in range(int(rng.integers(4, 13 if dense else 11))):
      if it % 5 == 2 and rng.random() < 0.15:
        hist.append(('policy', [None, 'FULLY_CONNECTED', 'TANH', 'CONV_2D', 'EMBEDDING_LOOKUP'][int(rng.integers(5))]))
        continue
      if dense:
        hist.append(('add', str(rng.choice(rxs)), str(rng.choice(sels, p=[0.2, 0.3, 0.25, 0.25])), str(rng.choice(cfg_names))))
        continue
      if rng.random() < 0.12:
        ent = []
        for _ in range(int(rng.integers(1, 4))):
          e = (str(rng.choice(WIDE_REGEXES)), str(rng.choice(WIDE_SELS)), str(rng.choice(cfg_names)))
          alg, cfg = recipes.CFGS[e[2]]
          if e[1] == '*' or alg == 'no_quantize' or recipes.declared_supported(alg, e[1], cfg):
            ent.append(e)
        hist.append(('load', ent))
      else:
        hist.append(('add', str(rng.choice(WIDE_REGEXES)), str(rng.choice(WIDE_SELS)), str(rng.choice(cfg_names))))
    if any(st[0] == 'policy' for st in hist):
      hist = [st for st in hist if st[0] != 'load']
    r = run_history(ctx, hist, WIDE_QOPS, WIDE_SCOPES)
    ctx.count('histories')
    ctx.count('random_histories')
    k = json.dumps(hist)
    if r[0] == 'ok':
      if r[1] and k not in seen:
        ctx.count('nontrivial_histories')
      seen.add(k)
    else:
      bad += 1
      if bad <= 3:
        ctx.violation(r[0], {'exhaustive': False}, {'history': hist, 'info': r[1]})
    if ctx.sample is None:
      ctx.sample = {'history': hist, 'queries': len(WIDE_QOPS) * len(WIDE_SCOPES)}
  return {}


def summarize(agg):
  st = agg['stats']
  inc = []
  want = n_exhaustive(agg['tier'])
  if st.get('exhaustive_histories', 0) != want and not any(e.get('outcome') == 'inconclusive' for e in agg['cases']):
    inc.append(f"exhaustive enumeration incomplete: {st.get('exhaustive_histories', 0)} of {want}")
  return {'inconclusive': inc,
          'coverage': {'evaluations': int(st.get('histories', 0)), 'distinct_nontrivial': int(st.get('nontrivial_histories', 0)),
                       'exhaustive': False, 'exhaustive_subspace': f'add-histories up to length {2 if agg["tier"] == "quick" else 3} over the 72-letter alphabet: {st.get("exhaustive_histories", 0)} of {want} enumerated',
                       'queries': int(st.get('queries', 0))}}
