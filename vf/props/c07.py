"""C07 -- full-integer models approximate the float model on calibrated inputs."""
import os
import numpy as np
from vf.gen import models, recipes, data as gdata
from vf.oracle import interp, decode, localreplay
from vf.props import common, c01

LEVEL = 'exploration'
K_STEPS = 8.0
ALPHA = 0.02      # trigger only: an output beyond it is examined, not condemned
ALPHA_W4 = 0.02   # 4-bit weights: same trigger; weight rounding is accounted for by the decomposition (dequantized constants) and the probe
RULE = ('generated float models of depth <= 6 over the coverage-table operators x one static-range config for the whole model (8/16-bit '
        'activations, 4/8-bit weights, symmetric/asymmetric activations, per-tensor/per-channel weights; ".*"/"*" rule) x one random '
        'calibration input x; the model is calibrated on x alone and both models are run on x.  Oracle, in two stages.  (1) Trigger: every '
        f'dequantized output must be finite; an output with |deq(q) - f| > {K_STEPS:g} output steps + {ALPHA:g} * A (A = max |activation| of the '
        'float run), or constant while the float output spreads over more than max(16 steps, 0.1 A, that bound), is examined.  (2) Verdict '
        'on an examined output: it is a violation unless the deviation is rounding carried by the float network itself, shown either '
        '(a) deterministically by the local-replay decomposition (vf/oracle/localreplay.py): every operator of the observed quantized '
        'execution agrees, within the measured tolerance of its LiteRT kernel (<= 2 steps for 8-bit kernels), with a single-operator float '
        'replay on the dequantized values it actually read, and every quantized tensor covers the float range of that tensor with a step at '
        'most 4x the ideal one (spec-dictated parameters excepted); or (b) by the conditioning probe: the deviation is below bound + '
        f'{4:g} * delta, delta = what the FLOAT model shows when noise of one quantization step (from its own ranges; fixed kernel ranges '
        'for softmax/logistic/tanh) is added to every tensor and constant (8 trials).  A model is admitted only if every float activation '
        'has non-zero range on x.  A unit is one (model, config, x); distinct by digest; non-trivial iff the model has >=2 operators and '
        'every output is integer-typed')
ASSUMPTIONS = ['a model whose quantized bias saturates INT32/INT64 (bias/(input_scale*weight_scale) does not fit; permitted by C05) is not judged',
               f'the trigger K={K_STEPS:g}, alpha={ALPHA:g} is deliberately tight (about 10 % of the cases are examined); the verdict comes from the '
               'decomposition, whose per-kernel tolerances were measured on the unchanged tree (35 689 models: all 8-bit kernels within 0.75 '
               'step, 16-bit linear kernels within 1.45, int16 GELU up to 556 steps) -- the LiteRT kernels are the trusted base',
               'the histogram of err/A per config class is in the evidence',
               'cases whose structure is refuted by the C01 oracles in the same execution are attributed there']
TT = models.TT
STATIC = ['srq8a_cw', 'srq8a_tw', 'srq8s_cw', 'srq16_cw', 'srq16_tw', 'srq8a_w4', 'srq16_w4', 'srq8s_w4tw']
BUCKETS = (0.005, 0.01, 0.02, 0.05, 0.1, 0.2, 0.35, 0.5)


def plan(tier):
  return {'n_cases': 700 if tier == 'quick' else 42000, 'shards': 16}


def float_reference(spec, sig, x):
  """(outputs, tensors, A) of the float model on x, or a skip reason."""
  try:
    f_outs, f_tens = interp.float_run(spec.content, sig, x, want_tensors=True)
  except Exception:  # pylint: disable=broad-except
    return 'generator_reject'
  A = 0.0
  declared = {t.name.decode() for t in models.read(spec.content).subgraphs[sig['subgraph']].tensors}
  f_tens = {n: dv for n, dv in f_tens.items() if n in declared}   # interpreter scratch tensors hold uninitialised memory
  for name, (det, v) in f_tens.items():
    if v.dtype != np.float32 or v.size == 0:
      continue
    if not np.all(np.isfinite(v)):
      return 'generator_reject_nonfinite'
    A = max(A, float(np.max(np.abs(v))))
  if A > 1e4 or A < 1e-3:
    return 'generator_reject_magnitude'
  return f_outs, f_tens, A


def zero_range_activation(src, f_tens):
  sg = src.subgraphs[0]
  runtime = {t.name.decode() for t in sg.tensors if src.buffers[t.buffer].data is None or len(src.buffers[t.buffer].data) == 0}
  for name, (det, v) in f_tens.items():
    if name in runtime and v.dtype == np.float32 and v.size:
      if (v.size > 1 and float(np.max(v) - np.min(v)) == 0.0) or (v.size == 1 and float(np.abs(v).max()) == 0.0):
        return True
  return False


def first_bad_operator(src, f_tens, q_tens, A):
  """Type of the first operator (source order) whose output deviates by more than 25% of its own magnitude from the float run
  while every runtime input of it deviates by less than 5% (tensors matched by name; quantized ones dequantized by the check)."""
  from vf.props import c18
  sg = src.subgraphs[0]

  def dev(name):
    if name not in f_tens or name not in q_tens:
      return None
    a = f_tens[name][1]
    d, v = q_tens[name]
    b = c18.deq(d, v)
    if a.dtype != np.float32 or getattr(b, 'shape', None) != a.shape:
      return None
    if not a.size:
      return 0.0
    own = max(float(np.max(np.abs(a))), 1e-6 * A, 1e-30)   # relative to the tensor's own magnitude
    return float(np.max(np.abs(a.astype(np.float64) - b))) / own
  for op in sg.operators:
    outs = [dev(sg.tensors[int(o)].name.decode()) for o in op.outputs]
    ins = [dev(sg.tensors[int(i)].name.decode()) for i in op.inputs if int(i) >= 0]
    if any(o is not None and o > 0.25 for o in outs) and all(i is None or i < 0.05 for i in ins):
      return models.CODE_NAMES.get(src.operatorCodes[op.opcodeIndex].builtinCode)
  return None


def bmm_output_pinned(src, f_tens, q_tens):
  """Mechanism signature of the BATCH_MATMUL finding: a constant-RHS BATCH_MATMUL whose quantized output tensor is
  identically its zero point while the float tensor is not constant."""
  sg = src.subgraphs[0]
  for op in sg.operators:
    if src.operatorCodes[op.opcodeIndex].builtinCode != models.BO.BATCH_MATMUL:
      continue
    d = src.buffers[sg.tensors[int(op.inputs[1])].buffer].data
    if d is None or len(d) == 0:
      continue
    name = sg.tensors[int(op.outputs[0])].name.decode()
    if name in q_tens and name in f_tens:
      det, v = q_tens[name]
      zp = det['quantization_parameters']['zero_points']
      a = f_tens[name][1]
      if len(zp) and v.size > 1 and np.all(v == int(zp[0])) and float(np.max(a) - np.min(a)) > 0:
        return True
  return False


def bmm_const_channelwise(src, per_channel_weights):
  sg = src.subgraphs[0]
  for op in sg.operators:
    if src.operatorCodes[op.opcodeIndex].builtinCode == models.BO.BATCH_MATMUL:
      t = sg.tensors[int(op.inputs[1])]
      d = src.buffers[t.buffer].data
      if d is not None and len(d) > 0 and per_channel_weights:
        return True
  return False


def int8_mul_overflowing_multiplier(mo):
  """Mechanism of the finding KF-MUL-INT8-MULTIPLIER-ABOVE-2, read off the output model: an int8 MUL whose requantization multiplier
  input_scale_1 * input_scale_2 / output_scale exceeds 2 (the product of two int8 codes times the multiplier then leaves the int16
  range the optimized LiteRT kernel works in; the reference kernel is right).  It takes an output range far smaller than the
  product of the input ranges: a fused RELU6 / RELU_N1_TO_1 on large inputs."""
  for sg in mo.subgraphs:
    for op in sg.operators:
      if mo.operatorCodes[op.opcodeIndex].builtinCode != models.BO.MUL:
        continue
      ts = [sg.tensors[int(i)] for i in list(op.inputs)[:2] + list(op.outputs)[:1]]
      if any(t.type != TT.INT8 or t.quantization is None or t.quantization.scale is None or len(t.quantization.scale) != 1 for t in ts):
        continue
      if float(ts[0].quantization.scale[0]) * float(ts[1].quantization.scale[0]) / float(ts[2].quantization.scale[0]) > 2.0:
        return True
  return False


def bias_saturated(mo):
  """A quantized bias sits at the INT32/INT64 limit: bias/(input_scale*weight_scale) does not fit (tiny weights or tiny input
  range with an O(1) bias).  C05's statement permits this; the output error is then unbounded and not C07's to judge."""
  for sg in mo.subgraphs:
    for t in sg.tensors:
      if t.type in (TT.INT32, TT.INT64) and decode.qparams(t) is not None:
        raw = decode.raw(mo.buffers[t.buffer])
        if raw:
          v = decode.decode(t, raw).astype(np.int64)
          info = np.iinfo(decode.NP[t.type])
          if v.size and (v.max() >= info.max or v.min() <= info.min + 1):
            return True
  return False


BETA = 4.0
PROBE_TRIALS = 8


def conditioning_probe(spec, sig, x, f_outs, f_tens, act_bits, weight_bits, seed_material):
  """How far the FLOAT network itself carries perturbations of quantization-step size: max |f_noisy - f| per output over
  PROBE_TRIALS runs of the float model with U(-1/2, 1/2)-step noise added to every runtime tensor an operator reads (steps from the float
  run's own ranges at `act_bits`) and to every float constant (`weight_bits`).  Independent of the quantizer: only the source
  model and its float execution are used."""
  steps = {}
  for n, (det, v) in f_tens.items():
    if v.dtype == np.float32 and v.size:
      steps[n] = (max(float(np.max(v)), 0.0) - min(float(np.min(v)), 0.0)) / (2.0 ** act_bits - 1)
  # outputs of SOFTMAX / LOGISTIC / TANH carry the range fixed by the runtime kernels (TFLite quantization spec), whatever
  # their values: [0, 1) in 2^bits steps (2^15 for 16 bit), resp. [-1, 1)
  src = models.read(spec.content)
  sgp = src.subgraphs[sig['subgraph']]
  fixed = {models.BO.SOFTMAX: 1.0 / 256 if act_bits == 8 else 1.0 / 32768, models.BO.LOGISTIC: 1.0 / 256 if act_bits == 8 else 1.0 / 32768,
           models.BO.TANH: 1.0 / 128 if act_bits == 8 else 1.0 / 32768}
  for op in sgp.operators:
    code = src.operatorCodes[op.opcodeIndex].builtinCode
    if code in fixed:
      steps[sgp.tensors[int(op.outputs[0])].name.decode()] = fixed[code]
  delta = {k: 0.0 for k in f_outs}
  for trial in range(PROBE_TRIALS):
    rng = np.random.default_rng([int(seed_material) & 0x7fffffff, trial])
    noisy = models.noise_injected(spec.content, steps, weight_bits, rng, gamma=1.0, si=sig['subgraph'])
    outs, _ = interp.float_run(noisy, sig, x, want_tensors=False)
    for k in f_outs:
      if k in outs and outs[k].shape == f_outs[k].shape:
        d = np.abs(outs[k].astype(np.float64) - f_outs[k].astype(np.float64))
        delta[k] = max(delta[k], float(np.max(d)) if d.size and np.all(np.isfinite(d)) else float('inf'))
  return delta


def evaluate(ctx, spec, src, run, sig, x, ref, weight_bits, act_bits, per_channel_weights, base, label):
  """Runs the quantized model on x inside ctx.risky and applies the C07 oracle.  Returns True when every output was integer."""
  f_outs, f_tens, A = ref
  mo = models.read(run.out)
  if bias_saturated(mo):
    ctx.count('bias_saturated_not_judged')
    return True
  feats = {'act_bits': act_bits, 'weight_bits': weight_bits,
           'bmm_const_rhs_channelwise': bmm_const_channelwise(src, per_channel_weights),
           'int8_mul_multiplier_above_2': int8_mul_overflowing_multiplier(mo)}
  state = {'all_q': True}

  def go():
    try:
      q_outs, od, q_tens = interp.quant_run(run.out, sig['key'], x, want_tensors=True)
    except Exception as e:  # pylint: disable=broad-except
      f = c01.interp_error_features(str(e), mo)
      ctx.count('quantized_model_not_runnable')
      ctx.violation('interpreter_error', dict(f, phase='allocate_or_invoke', exc=type(e).__name__), dict(base, message=str(e)[-300:]))
      return
    if os.environ.get('VERIF_C07_LOCAL_ALWAYS'):
      # calibration / audit mode (tools/c07_local_calibration.sh): local replay of EVERY case, only recorded
      try:
        loc = localreplay.explain(spec.content, src, run.out, sig, f_tens, q_tens)
        if loc.available:
          ctx.count('audit_local_replays')
          for key_, dev_ in loc.max_steps.items():
            ctx.observe_max('audit_local_deviation_steps:' + key_, dev_)
          for c in loc.culprits:
            ctx.count('audit_culprit:%s:%s:%s:bmmcw=%s' % (c['what'], c.get('op') or c.get('tensor_of'), c.get('bits'),
                                                          feats['bmm_const_rhs_channelwise']))
      except Exception as e:  # pylint: disable=broad-except
        ctx.count('audit_failed:' + type(e).__name__)
    for k, v in q_outs.items():
      d = od[k]
      ctx.count('outputs_checked')
      refv = f_outs[k].astype(np.float64)
      got = interp.dequant_output(v, d)
      sc = d['quantization_parameters']['scales']
      step = float(sc[0]) if len(sc) else 0.0
      if not len(sc):
        state['all_q'] = False
      f = dict(feats, out_dtype=str(v.dtype))
      if not np.all(np.isfinite(got)) or (len(sc) and not np.isfinite(step)):
        ctx.violation('non_finite_output', f, dict(base, output=k))
        continue
      err = float(np.max(np.abs(got - refv))) if refv.size else 0.0
      bound = K_STEPS * step + (ALPHA_W4 if weight_bits == 4 else ALPHA) * A
      r_ = err / A if A > 0 else 0.0
      if not feats['bmm_const_rhs_channelwise']:
        bucket = next((b for b in BUCKETS if r_ < b), 'inf')
        ctx.count(f'hist:a{act_bits}w{weight_bits}:<{bucket}')
        ctx.observe_max(f'err_over_A:a{act_bits}w{weight_bits}', r_)
      const = bool(v.size > 1 and np.all(v == v.reshape(-1)[0]))
      spread = float(np.max(refv) - np.min(refv)) if refv.size else 0.0
      # "never constant when the float output is not": only where the float spread exceeds what the bound itself allows
      degenerate = const and spread > max(K_STEPS * step, 0.1 * A, bound) and len(sc) > 0
      if err > bound or degenerate:
        # The fixed bound is exceeded: is this network simply ill-conditioned?  (e.g. a large-range tensor squashed by a fused
        # RELU6 and multiplied up again).  The float model answers that by itself.
        if 'delta' not in state:
          try:
            state['delta'] = conditioning_probe(spec, sig, x, f_outs, f_tens, act_bits, weight_bits,
                                                int(common.digest([common.sha(spec.content), label])[:8], 16))
          except Exception:  # pylint: disable=broad-except
            state['delta'] = {}
        dlt = state['delta'].get(k)
        ctx.count('conditioning_probes')
        # ... and, deterministically: is every operator of the observed execution locally consistent with its float
        # counterpart on the inputs it actually read, with parameters that fit the float ranges?  Then the deviation is
        # rounding carried by the float network (vf/oracle/localreplay.py).
        if 'local' not in state:
          try:
            state['local'] = localreplay.explain(spec.content, src, run.out, sig, f_tens, q_tens)
          except Exception as e:  # pylint: disable=broad-except
            state['local'] = None
            ctx.count('local_replay_failed:' + type(e).__name__)
        loc = state['local']
        if loc is not None and loc.available:
          ctx.count('local_replays')
          for key_, dev_ in loc.max_steps.items():
            ctx.observe_max('local_deviation_steps:' + key_, dev_)
          if loc.explained and not degenerate:
            ctx.count('explained_by_local_replay_not_judged')
            continue
        if dlt is not None and err <= bound + BETA * dlt and not (degenerate and spread > bound + BETA * dlt):
          ctx.count('ill_conditioned_float_model_not_judged')
          ctx.observe_max('probe_delta_over_A', dlt / A if A else 0.0)
          ctx.observe_max(f'excused_err_over_extended_bound:w{weight_bits}', err / (bound + BETA * dlt))
          continue
        state['probe'] = dlt
      if err > bound or degenerate:
        zp = int(d['quantization_parameters']['zero_points'][0]) if len(sc) else None
        fb = first_bad_operator(src, f_tens, q_tens, A)
        ctx.violation('output_far_from_float_model' if err > bound else 'output_constant_while_float_output_is_not',
                      dict(f, output_constant=const,
                           local_culprit_ops=(None if state.get('local') is None or not state['local'].available else
                                              sorted({c.get('op') or c.get('tensor_of') for c in state['local'].culprits})),
                           output_equals_zero_point=bool(const and zp is not None and int(v.reshape(-1)[0]) == zp),
                           first_bad_operator=fb, bmm_output_pinned_to_zero_point=bmm_output_pinned(src, f_tens, q_tens)),
                      dict(base, output=k, err=err, bound=bound, A=A, step=step, err_steps=err / step if step else None, spread=spread,
                           conditioning_probe_delta=state.get('probe'),
                           local_replay=(None if state.get('local') is None or not state['local'].available
                                         else {'ops': state['local'].ops, 'culprits': state['local'].culprits[:4]})))
  from vf.run import abortinfo, driver
  info = {'recipe_label': label, 'recipe': run.recipe, 'ops': base.get('ops'), 'census': c01.int16_census(mo)}
  info['model_path'], info['feeds_path'] = abortinfo.save(os.path.join(driver.ROOT, '.work', 'risky'), run.out, {sig['key']: x})
  ctx.risky('interp.c07', go, info)
  return state['all_q']


def run_case(ctx, case, rng):
  spec = models.rand_model(rng, n_sub=1, n_ops=int(rng.integers(1, 7)), allow_unsupported=False, export_consumed_p=0.1) \
      if rng.random() < 0.85 else models.t_chain(rng)
  if case % 16 == 7:
    spec = models.t_tied_bias(rng)      # one bias constant read by two operators with different input ranges (refused today: skipped)
    ctx.count('tied_bias_models')
  if case % 256 == 11:
    spec = models.t_huge_activation(rng)     # directed: 2^21-element activations with their extremes at odd positions
    ctx.count('huge_activation_cases')
  sig = spec.signatures[0]
  x = gdata.sample(rng, sig, str(rng.choice(['normal', 'normal', 'scaled', 'positive'])))
  if 'huge_activation' in spec.classes:
    for v_ in x.values():
      v_[0, :, 1037] += 40.0
      v_[0, :, 411] -= 30.0
  ref = float_reference(spec, sig, x)
  if isinstance(ref, str):
    return {'outcome': 'skipped', 'reason': ref}
  src = models.read(spec.content)
  if zero_range_activation(src, ref[1]):
    return {'outcome': 'skipped', 'reason': 'activation_with_zero_range'}
  cfgname = STATIC[case % len(STATIC)]
  run = common.pipeline(spec, {sig['key']: [x]}, rules=[('.*', '*', cfgname)])
  if run.phase == 'no_rule_accepted':
    return {'outcome': 'skipped', 'reason': 'no_rule_accepted'}
  if run.exc is not None:
    ctx.count('raised:' + common.exc_signature(run.exc)[:60])
    return {'outcome': 'skipped', 'reason': 'quantize_raised'}
  cfg = recipes.CFGS[cfgname][1]
  base = {'config': cfgname, 'ops': common.describe_model(spec.content, src)}
  all_q = evaluate(ctx, spec, src, run, sig, x, ref, cfg.weight_tensor_config.num_bits, cfg.activation_tensor_config.num_bits,
                   cfg.weight_tensor_config.granularity == recipes.GR.CHANNELWISE, base, cfgname)
  ctx.unit(common.digest([common.model_key(spec), cfgname, x]), nontrivial=len(base['ops'][0]) >= 2 and all_q)
  if ctx.sample is None:
    ctx.sample = dict(base, A=ref[2], outputs=len(ref[0]))
  return {}


crash_to_violation = c01.crash_to_violation


def summarize(agg):
  st = agg['stats']
  inc = []
  if st.get('outputs_checked', 0) < 100:
    inc.append(f"only {st.get('outputs_checked', 0)} outputs checked")
  hist = {}
  for k, v in st.items():
    if k.startswith('hist:'):
      _, cls, b = k.split(':')
      hist.setdefault(cls, {})[b] = v
  return {'inconclusive': inc, 'coverage': {'K_steps': K_STEPS, 'alpha_w8': ALPHA, 'alpha_w4': ALPHA_W4, 'err_over_A_histogram': hist}}
