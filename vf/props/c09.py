"""C09 -- calibration statistics are exact, order-faithful and resumable."""
import copy
import itertools
import numpy as np
from ai_edge_quantizer import quantizer as aeq
from vf.gen import models, recipes, data as gdata
from vf.oracle import interp, resolve, qparams, decode
from vf.props import common, c03

LEVEL = 'exploration'
RULE = ('generated models (1-3 signatures) x recipes needing calibration (shipped a8w8/a16w8, random static-range rule sets with '
        'tensor-/channel-wise weights) x datasets of 1-6 samples drawn from all data classes.  Reference: the check runs its own '
        'interpreter per sample in dataset order, takes min/max of every tensor and folds them with first-sample-initialises / '
        '0.95*old+0.05*new in float64; constants: true per-tensor or per-axis min/max.  Resume: for every 2-way split point (3-way in '
        'thorough) calibrate(D2, previous=calibrate(D1)) must equal calibrate(D1+D2) exactly and leave the previous result unchanged.  '
        'A unit is one (model, recipe, dataset); distinct by their digest; non-trivial iff the dataset has >=2 samples and >=1 runtime '
        'tensor was compared')
ASSUMPTIONS = ['models with two signatures over ONE subgraph are left out: both update the same tensors, so the order in which a split dataset reaches them is not determined by the statement', 'runtime tensors: rel 1e-5 + abs 1e-6*max|sample extreme| (library folds in float32)',
               'resume equality is exact array equality', 'a constant that is not the weight operand may be recorded per tensor or per axis']
TT = models.TT


def plan(tier):
  return {'n_cases': 480 if tier == 'quick' else 9000, 'shards': 16}


def own_fold(content, sig, dataset):
  """name -> (min, max, absmax) folded over the dataset by the reference rule."""
  it = interp.make(content)
  it.allocate_tensors()
  ema = {}
  for d in dataset:
    it.reset_all_variables()        # every sample is seen from the model's initial state (stateful operators: RNN hidden state)
    interp.run_signature(it, sig['key'], d)
    for name, (det, v) in interp.all_tensors(it, interp.subgraph_index(it, sig['key'])).items():
      if v.size == 0 or v.dtype.kind not in 'fiu':
        continue
      mn, mx = float(np.min(v)), float(np.max(v))
      if name not in ema:
        ema[name] = [mn, mx, max(abs(mn), abs(mx))]
      else:
        e = ema[name]
        e[0] = 0.95 * e[0] + 0.05 * mn
        e[1] = 0.95 * e[1] + 0.05 * mx
        e[2] = max(e[2], abs(mn), abs(mx))
  return ema


def qsv_equal(a, b):
  if a.keys() != b.keys():
    return False, 'keys differ: ' + str(sorted(set(a) ^ set(b))[:4])
  for k in a:
    if a[k].keys() != b[k].keys():
      return False, f'fields of {k} differ'
    for f in a[k]:
      if not np.array_equal(np.asarray(a[k][f]), np.asarray(b[k][f])):
        return False, f'{k}.{f}: {np.asarray(a[k][f]).ravel()[:2]} vs {np.asarray(b[k][f]).ravel()[:2]}'
  return True, ''


ONE_SHOT = [False]   # hand calibrate() a one-shot iterator (the API takes any Iterable): the data may be walked only once


def calibrate_seq(qt, spec, parts, prev=None):
  """parts: list of {sig key: dataset}; sessions chained through previous_calibration_result."""
  multi = len(spec.signatures) > 1
  res = prev
  for part in parts:
    for s in spec.signatures:
      ds = part.get(s['key'])
      if not ds:
        continue
      res = qt.calibrate((x for x in ds) if ONE_SHOT[0] else ds, signature_key=s['key'] if multi else None,
                         previous_calibration_result=res)
  return res


def run_case(ctx, case, rng):
  ONE_SHOT[0] = bool(case % 5 == 3)
  if ONE_SHOT[0]:
    ctx.count('cases_with_one_shot_iterators')
  n_sub = 1 if rng.random() < 0.75 else int(rng.integers(2, 4))
  tied = None
  if case % 8 == 5:
    # one constant TENSOR read by several operators that get different weight granularities
    from vf.props import c15
    n_sub = 1
    spec, tied = c15.build(rng, 'same_tensor' if rng.random() < 0.7 else 'tied_embedding', int(rng.integers(2, 4)))
  elif case % 128 == 9:
    # directed: activations of 2^21 elements whose extremes sit at odd positions (anything that strides / samples large tensors)
    n_sub = 1
    spec = models.t_huge_activation(rng)
    ctx.count('huge_activation_cases')
  elif case % 64 == 7:
    # directed: a stateful operator (variable tensor) in the SECOND of two signatures (KF-CALIBRATE-VARIABLE-TENSOR-IN-OTHER-SUBGRAPH)
    n_sub = 2
    spec = models.t_stateful_two_signatures(rng)
    ctx.count('stateful_two_signature_cases')
  else:
    spec = models.model_for_case(rng, multi_sub_p=0.0, alias_p=0.0) if n_sub == 1 else models.rand_model(rng, n_sub=n_sub)
  n = int(rng.integers(1, 7))
  classes = gdata.DATA_CLASSES if rng.random() < 0.5 else ('normal', 'scaled')
  if 'huge_activation' in spec.classes:
    n, classes = int(rng.integers(1, 3)), ('normal',)
  datasets = {s['key']: gdata.dataset(rng, s, n, classes) for s in spec.signatures}
  if 'huge_activation' in spec.classes:
    for ds_ in datasets.values():
      for x_ in ds_:
        for v_ in x_.values():
          v_[0, :, 1037] += 40.0
          v_[0, :, 411] -= 30.0
  ok, _ = common.admit(spec, datasets)
  if not ok:
    return {'outcome': 'skipped', 'reason': 'generator_reject'}
  src = models.read(spec.content)
  if tied is not None:
    import re
    rules = [('.*', '*', 'srq8a_cw')] + [(re.escape(out), sel, str(rng.choice(['srq8a_cw', 'srq8a_tw', 'srq8s_cw', 'srq16_tw', 'drq8_tw', 'drq8_cw'])))
                                          for sel, out in tied]
    ctx.count('tied_constant_cases')
  elif case % 3 == 0:
    name = ['default_a8w8_recipe.json', 'default_a16w8_recipe.json'][(case // 3) % 2]
    rules = recipes.SHIPPED_AS_RULES[name]
  else:
    rules = recipes.random_rules(rng, src, safe_regex=True, cfg_pool=recipes.SRQ * 3 + recipes.DRQ + ['noq'])
  qt = aeq.Quantizer(spec.content)
  acc = recipes.apply_rules(qt, rules)
  if not acc or not qt.need_calibration:
    return {'outcome': 'skipped', 'reason': 'recipe_needs_no_calibration'}
  base = {'rules': acc, 'ops': common.describe_model(spec.content, src), 'n_samples': n}
  try:
    full = calibrate_seq(qt, spec, [datasets])
  except Exception as e:  # pylint: disable=broad-except
    ctx.violation('calibrate_raised', {'exc': common.exc_signature(e)[:80], 'multi_signature': n_sub > 1,
                                       'variable_tensor_in_model': 'stateful_op' in spec.classes}, base)
    return {}
  ctx.count('calibrations')
  if n_sub > 1 and not ONE_SHOT[0]:
    # the same statistics through ONE Calibrator object continued over all signatures (the documented flow for dependent
    # signatures), instead of the fresh Calibrator per call that Quantizer.calibrate() builds
    try:
      from ai_edge_quantizer import calibrator as _cal, recipe_manager as _rm
      rm_ = _rm.RecipeManager()
      rm_.load_quantization_recipe(qt.get_quantization_recipe())
      one = _cal.Calibrator(spec.content)
      for s_ in spec.signatures:
        if datasets.get(s_['key']):
          one.calibrate(datasets[s_['key']], rm_, signature_key=s_['key'])
      same, why_ = qsv_equal(full, one.get_model_qsvs())
      ctx.count('single_calibrator_over_all_signatures')
      if not same:
        ctx.violation('one_calibrator_over_all_signatures_differs', {'multi_signature': True}, dict(base, why=why_))
    except Exception as e:  # pylint: disable=broad-except
      import traceback as _tb
      ctx.violation('one_calibrator_over_all_signatures_raised', {'exc': common.exc_signature(e)[:80]}, dict(base, traceback=''.join(_tb.format_exception(e))[-700:]))
  # ---- reference fold per signature
  ref = recipes.reference_for(acc)
  compared = 0
  for s in spec.signatures:
    sg = src.subgraphs[s['subgraph']]
    fold = own_fold(spec.content, s, datasets[s['key']])
    ctx.count('samples_folded', len(datasets[s['key']]))
    name = lambda t: sg.tensors[int(t)].name.decode()
    const_of = {}
    for t in sg.tensors:
      d = src.buffers[t.buffer].data
      if d is not None and len(d) > 0:
        const_of[t.name.decode()] = t
    # expectation for weight constants
    weight_expect = {}
    for op in sg.operators:
      c = src.operatorCodes[op.opcodeIndex].builtinCode
      opn = models.SUPPORTED_CODES.get(c)
      if opn is None or opn not in c03.WEIGHT_OPS:
        continue
      alg, cfg, _ = ref.resolve(opn, resolve.op_scope([name(o) for o in op.outputs if int(o) >= 0]))
      if alg == resolve.NOQ or cfg is None or cfg.weight_tensor_config is None:
        continue
      wpos = 1
      if len(op.inputs) > wpos and name(op.inputs[wpos]) in const_of:
        per_axis = cfg.weight_tensor_config.granularity == recipes.GR.CHANNELWISE
        adj = bool(op.builtinOptions.adjY) if opn == 'BATCH_MATMUL' else False
        weight_expect.setdefault(name(op.inputs[wpos]), []).append((opn, per_axis, adj))
    for key, qsv in full.items():
      if not qsv:
        continue
      if key in const_of:
        t = const_of[key]
        if t.type != TT.FLOAT32:
          continue
        x = np.frombuffer(decode.raw(src.buffers[t.buffer]), dtype=np.float32).reshape(decode.shape_of(t))
        cands = []
        if key in weight_expect:
          for opn, per_axis, adj in weight_expect[key]:
            if per_axis:
              ax = qparams.weight_axis(opn, x.ndim, adj)
              red = tuple(i for i in range(x.ndim) if i != ax)
              cands.append((np.min(x, axis=red).ravel(), np.max(x, axis=red).ravel(), 'per_axis'))
            else:
              cands.append((np.array([x.min()]), np.array([x.max()]), 'per_tensor'))
        else:
          cands.append((np.array([x.min()]), np.array([x.max()]), 'per_tensor'))
          for ax in range(x.ndim):
            red = tuple(i for i in range(x.ndim) if i != ax)
            cands.append((np.min(x, axis=red).ravel(), np.max(x, axis=red).ravel(), 'per_axis'))
        gmn, gmx = np.asarray(qsv['min']).ravel(), np.asarray(qsv['max']).ravel()
        ctx.count('constants_compared')
        if not any(gmn.shape == c[0].shape and np.array_equal(gmn, c[0]) and np.array_equal(gmx, c[1]) for c in cands):
          ctx.violation('constant_statistics_differ', {'weight_operand': key in weight_expect},
                        dict(base, tensor=key, got=[gmn[:3].tolist(), gmx[:3].tolist()], want=[cands[0][0][:3].tolist(), cands[0][1][:3].tolist()]))
        elif key in weight_expect:
          ctx.count('weight_stats:' + cands[0][2])
      elif key in fold:
        if key not in {t.name.decode() for t in sg.tensors}:
          continue
        ctx.count('runtime_tensors_compared')
        compared += 1
        rmn, rmx, amax = fold[key]
        gmn, gmx = np.asarray(qsv['min'], dtype=np.float64).ravel(), np.asarray(qsv['max'], dtype=np.float64).ravel()
        tol = lambda r: 1e-5 * abs(r) + 1e-6 * amax + 1e-30
        if gmn.size != 1 or gmx.size != 1 or abs(gmn[0] - rmn) > tol(rmn) or abs(gmx[0] - rmx) > tol(rmx):
          ctx.violation('runtime_statistics_differ', {'n_samples': n},
                        dict(base, tensor=key, got=[gmn.tolist(), gmx.tolist()], want=[rmn, rmx]))
  # ---- resume histories
  splits = [(c,) for c in range(1, n)]
  if ctx.tier != 'quick' and n >= 3:
    splits += list(itertools.combinations(range(1, n), 2))
  for cuts in splits:
    bounds = [0] + list(cuts) + [n]
    parts = [{k: v[bounds[i]:bounds[i + 1]] for k, v in datasets.items()} for i in range(len(bounds) - 1)]
    try:
      prev = None
      for part in parts:
        prev = calibrate_seq(qt, spec, [part], prev=prev)
      # previous result unchanged: recompute first session and compare with a kept copy
      p1 = calibrate_seq(qt, spec, [parts[0]])
      keep = copy.deepcopy(p1)
      calibrate_seq(qt, spec, parts[1:], prev=p1)
      okp, why = qsv_equal(p1, keep)
      if not okp:
        ctx.violation('previous_result_modified', {}, dict(base, cuts=list(cuts), why=why))
    except Exception as e:  # pylint: disable=broad-except
      ctx.violation('resumed_calibration_raised', {'exc': common.exc_signature(e)[:80]}, dict(base, cuts=list(cuts)))
      continue
    ctx.count('resume_histories')
    if len(spec.signatures) == 1:
      same, why = qsv_equal(prev, full)
      if not same:
        ctx.violation('resumed_result_differs_from_single_pass', {'sessions': len(parts)}, dict(base, cuts=list(cuts), why=why))
    else:
      # multi-signature: sessions interleave signatures differently from the single pass (per-signature order is kept),
      # statistics are per tensor and each tensor belongs to one signature, so the results must still be equal.
      same, why = qsv_equal(prev, full)
      if not same:
        ctx.violation('resumed_result_differs_from_single_pass', {'sessions': len(parts), 'multi_signature': True},
                      dict(base, cuts=list(cuts), why=why))
  ctx.key = common.digest([common.model_key(spec), acc, datasets])
  ctx.nontrivial = n >= 2 and compared > 0
  ctx.sample = dict(base, runtime_tensors_compared=compared, splits=[list(c) for c in splits][:5], signatures=len(spec.signatures))
  return {}


def summarize(agg):
  st = agg['stats']
  inc = []
  for k in ('runtime_tensors_compared', 'constants_compared', 'resume_histories', 'weight_stats:per_axis', 'weight_stats:per_tensor'):
    if st.get(k, 0) == 0:
      inc.append(f'{k} is zero')
  return {'inconclusive': inc}
