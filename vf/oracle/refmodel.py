"""Reference programs for C06 built from the INPUT model: (a) the whole input model with each rewritten
constant replaced by the decoded + dequantized content the OUTPUT model stores; (b) single-operator
replay models.  Imports nothing from ai_edge_quantizer."""
import copy
import numpy as np
from ai_edge_litert import schema_py_generated as S
from tensorflow.lite.tools import flatbuffer_utils as fu
from vf.oracle import decode, skeleton

TT = S.TensorType
BO = S.BuiltinOperator


def stored_constant(mo, b, producer_of, t1, t0):
  """The constant tensor of the output subgraph b behind operand t1 (directly or through one DEQUANTIZE)."""
  if t1 == t0:
    return b.tensors[t1]
  p = producer_of.get(t1)
  if p is not None and skeleton.code(mo, p) == BO.DEQUANTIZE:
    return b.tensors[int(p.inputs[0])]
  return None


def dequantized_content(mo, stored):
  """float32 array the runtime sees for a stored constant (None if it is still float32)."""
  raw = decode.raw(mo.buffers[stored.buffer])
  if raw is None or len(raw) == 0:
    return None
  if stored.type == TT.FLOAT32:
    return None
  vals = decode.decode(stored, raw)
  if stored.type == TT.FLOAT16:
    return vals.astype(np.float32)
  return decode.dequantize(vals, stored)


def overrides(ms, mo, maps):
  """{(subgraph, source tensor index): float32 array} for every rewritten constant; None on inconsistency."""
  out = {}
  for si, (a, b) in enumerate(zip(ms.subgraphs, mo.subgraphs)):
    mp = maps[si]
    producer_of = {int(o): op for op in b.operators for o in op.outputs}
    for k, oa in enumerate(a.operators):
      ob = b.operators[mp.kept[k]]
      for t0, t1 in zip(oa.inputs, ob.inputs):
        t0, t1 = int(t0), int(t1)
        if t0 < 0:
          continue
        ta = a.tensors[t0]
        d = ms.buffers[ta.buffer].data
        if ta.type != TT.FLOAT32 or d is None or len(d) == 0:
          continue
        st = stored_constant(mo, b, producer_of, t1, t0)
        if st is None:
          continue
        c = dequantized_content(mo, st)
        if c is None:
          continue
        if (si, t0) in out and not np.array_equal(out[(si, t0)], c):
          return None
        out[(si, t0)] = c
  return out


def whole_model(src_bytes, ov):
  """Input model with the overridden constants (each override gets a private buffer)."""
  m = fu.read_model_from_bytearray(bytearray(src_bytes))
  for (si, ti), arr in ov.items():
    t = m.subgraphs[si].tensors[ti]
    buf = S.BufferT()
    buf.data = np.frombuffer(np.ascontiguousarray(arr, dtype=np.float32).tobytes(), dtype=np.uint8)
    m.buffers.append(buf)
    t.buffer = len(m.buffers) - 1
  return bytes(fu.convert_object_to_bytearray(m))


def single_op_model(ms, sg, op, const_override):
  """Float model with just `op`: runtime operands become inputs, constants keep (possibly overridden) data.
  Returns (bytes, remap source tensor index -> replay tensor index)."""
  m = S.ModelT()
  m.version = 3
  m.description = b'replay'
  m.buffers = [S.BufferT()]
  m.operatorCodes = [copy.deepcopy(ms.operatorCodes[op.opcodeIndex])]
  g = S.SubGraphT()
  m.subgraphs = [g]
  g.tensors, g.operators, g.inputs, g.outputs, g.name = [], [], [], [], b'replay'
  remap = {}
  in_set = [int(x) for x in op.inputs]
  for t in list(op.inputs) + list(op.outputs):
    t = int(t)
    if t == -1 or t in remap:
      continue
    srct = sg.tensors[t]
    nt = S.TensorT()
    nt.name = srct.name
    nt.shape = [int(d) for d in srct.shape] if srct.shape is not None else []
    nt.type = srct.type
    data = const_override[t] if t in const_override else ms.buffers[srct.buffer].data
    buf = S.BufferT()
    if data is not None and len(np.asarray(data).tobytes()) > 0:
      buf.data = np.frombuffer(np.asarray(data).tobytes(), dtype=np.uint8)
    else:
      data = None
    m.buffers.append(buf)
    nt.buffer = len(m.buffers) - 1
    g.tensors.append(nt)
    remap[t] = len(g.tensors) - 1
    if data is None and t in in_set:
      g.inputs.append(remap[t])
  o = copy.deepcopy(op)
  o.opcodeIndex = 0
  o.inputs = [(-1 if int(t) == -1 else remap[int(t)]) for t in op.inputs]
  o.outputs = [remap[int(t)] for t in op.outputs]
  g.operators = [o]
  g.outputs = list(o.outputs)
  return bytes(fu.convert_object_to_bytearray(m)), remap
