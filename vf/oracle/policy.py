"""Independent reading of the DECLARED config policy (the JSON text in default_policy.DEFAULT_JSON_POLICY is data:
which (operator, config) pairs the runtime supports) and of the documented float-casting rule.  Only the JSON text and
enum names are taken from the library; the unrolling is done here, so a slip in the library's own unrolling / membership
check shows up as a disagreement."""
import json

_CACHE = {}


def _tkey(t):
  if t is None:
    return None
  g = getattr(t.granularity, 'value', t.granularity)
  d = getattr(t.dtype, 'value', t.dtype)
  return (int(t.num_bits), bool(t.symmetric), str(g), str(d), int(getattr(t, 'block_size', 0) or 0))


def cfg_key(cfg):
  cp = getattr(cfg.compute_precision, 'value', cfg.compute_precision)
  return (_tkey(cfg.activation_tensor_config), _tkey(cfg.weight_tensor_config), str(cp), bool(cfg.explicit_dequantize))


def declared(json_text):
  """operator name -> set of config keys."""
  if json_text in _CACHE:
    return _CACHE[json_text]
  pol = json.loads(json_text)
  out = {}
  for cname, ops in pol['ops_per_config'].items():
    c = pol['configs'][cname]
    acts = [None]
    if 'activation_tensor_config' in c:
      a = c['activation_tensor_config']
      acts = [(int(a['num_bits']), bool(s), str(g), str(a['dtype']), 0) for s in a['symmetric'] for g in a['granularity']]
    w = c['weight_tensor_config']
    weights = [(int(w['num_bits']), bool(s), str(g), str(w['dtype']), 0) for s in w['symmetric'] for g in w['granularity']]
    keys = {(a, wk, str(c['compute_precision']), bool(c['explicit_dequantize'])) for a in acts for wk in weights}
    for op in ops:
      out.setdefault(op, set()).update(keys)
  _CACHE[json_text] = out
  return out


FLOAT_CASTING_OPS = {'FULLY_CONNECTED', 'CONV_2D', 'DEPTHWISE_CONV_2D', 'CONV_2D_TRANSPOSE', 'EMBEDDING_LOOKUP'}


def supported(json_text, alg, op, cfg):
  """Reference support predicate for (algorithm, operator, config) without skip_checks."""
  if cfg is None:
    return False
  if getattr(cfg, 'skip_checks', False):
    return True
  w = cfg.weight_tensor_config
  if alg == 'min_max_uniform_quantize':
    if w is None or str(getattr(w.dtype, 'value', w.dtype)) != 'INT':
      return False
    if str(getattr(w.granularity, 'value', w.granularity)) == 'BLOCKWISE':
      return False
    return cfg_key(cfg) in declared(json_text).get(op, set())
  if alg == 'float_casting':
    return (str(getattr(cfg.compute_precision, 'value', cfg.compute_precision)) == 'FLOAT' and cfg.activation_tensor_config is None
            and op in FLOAT_CASTING_OPS and w is not None and int(w.num_bits) == 16
            and str(getattr(w.dtype, 'value', w.dtype)) == 'FLOAT')
  return False
