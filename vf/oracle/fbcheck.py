"""Structural well-formedness of a TFLite model (C01, static part).

Written from the flatbuffer schema and the property statement; imports nothing
from ai_edge_quantizer.
"""
from tensorflow.lite.tools import flatbuffer_utils


def check(model_bytes, model=None):
  """Returns a list of error tuples (kind, ...) -- empty when well-formed."""
  errs = []
  if bytes(model_bytes[4:8]) != b'TFL3':
    errs.append(('file_identifier', bytes(model_bytes[4:8]).hex()))
  m = model or flatbuffer_utils.read_model_from_bytearray(bytearray(model_bytes))
  nb = len(m.buffers)
  nc = len(m.operatorCodes)
  names = set()
  if not m.subgraphs:
    errs.append(('no_subgraph',))
  for si, sg in enumerate(m.subgraphs):
    nt = len(sg.tensors)
    buffers_ok = True
    for ti, t in enumerate(sg.tensors):
      if not 0 <= t.buffer < nb:
        errs.append(('buffer_index', si, ti))
        buffers_ok = False
      if t.name in names:
        errs.append(('dup_name', si, t.name.decode('utf8', 'replace')))
      names.add(t.name)
    const = set()
    if buffers_ok:
      for ti, t in enumerate(sg.tensors):
        d = m.buffers[t.buffer].data
        if d is not None and len(d) > 0:
          const.add(ti)
        elif getattr(t, 'isVariable', False):
          const.add(ti)       # a variable (state) tensor is readable from the start, like a constant
    graph_inputs = set(int(i) for i in sg.inputs)
    avail = set(graph_inputs) | const
    for i in list(sg.inputs) + list(sg.outputs):
      if not 0 <= int(i) < nt:
        errs.append(('io_index', si, int(i)))
    produced = {}
    for oi, op in enumerate(sg.operators):
      if not 0 <= op.opcodeIndex < nc:
        errs.append(('opcode_index', si, oi))
      for i in op.inputs:
        i = int(i)
        if i == -1:
          continue
        if not 0 <= i < nt:
          errs.append(('op_input_index', si, oi, i))
          continue
        if i not in avail:
          errs.append(('order', si, oi, i, sg.tensors[i].name.decode('utf8', 'replace')))
      for o in op.outputs:
        o = int(o)
        if not 0 <= o < nt:
          errs.append(('op_output_index', si, oi, o))
          continue
        if o in produced:
          errs.append(('multi_producer', si, o))
        if o in const or o in graph_inputs:
          errs.append(('writes_const_or_input', si, oi, o))
        produced[o] = oi
        avail.add(o)
    for o in sg.outputs:
      if 0 <= int(o) < nt and int(o) not in avail:
        errs.append(('output_never_produced', si, int(o)))
  for s in (m.signatureDefs or []):
    if not 0 <= s.subgraphIndex < len(m.subgraphs):
      errs.append(('sig_subgraph', s.signatureKey))
      continue
    sg = m.subgraphs[s.subgraphIndex]
    for tm in s.inputs:
      if not 0 <= tm.tensorIndex < len(sg.tensors):
        errs.append(('sig_in_index', tm.name.decode()))
    for tm in s.outputs:
      if not 0 <= tm.tensorIndex < len(sg.tensors):
        errs.append(('sig_out_index', tm.name.decode()))
  return errs
