"""Reference model of recipe resolution (C11; reused by C02, C03, C10, C12, C13).

State: ordered map regex -> list of rules, in order of first insertion of the
regex.  add('*') resets that regex's list to the single rule; add(op) replaces
the rule for op in place or appends; a refused add leaves the state unchanged.
Resolution scans regexes in insertion order and rules in list order and keeps
the LAST applicable rule; applicable = re.search(regex, scope) and selector is
op or '*' and (algorithm is no_quantize or supported(algorithm, op, config)).
The support predicate is a parameter (the library's registered check).
"""
import re

ALL = '*'
NOQ = 'no_quantize'


class RefRecipe:
  def __init__(self, supported):
    self.supported = supported
    self.order = []     # regexes in order of first insertion
    self.rules = {}     # regex -> [(selector, algorithm, config, tag)]

  def add(self, regex, selector, algorithm, config, tag=None):
    """Returns True when accepted."""
    rule = (selector, algorithm, config, tag)
    if selector == ALL:
      if regex not in self.rules:
        self.order.append(regex)
      self.rules[regex] = [rule]
      return True
    if algorithm != NOQ and not self.supported(algorithm, selector, config):
      return False
    if regex not in self.rules:
      self.order.append(regex)
      self.rules[regex] = [rule]
      return True
    lst = self.rules[regex]
    for i, r in enumerate(lst):
      if r[0] == selector:
        lst[i] = rule
        return True
    lst.append(rule)
    return True

  def load(self, entries):
    """entries: [(regex, selector, algorithm, config, tag)]; resets first."""
    self.order = []
    self.rules = {}
    for e in entries:
      self.add(*e)

  def resolve(self, op, scope):
    """(algorithm, config, tag) of the last applicable rule or (NOQ, None, None)."""
    res = (NOQ, None, None)
    for rx in self.order:
      if not re.search(rx, scope):
        continue
      for sel, alg, cfg, tag in self.rules[rx]:
        if sel != ALL and sel != op:
          continue
        if alg != NOQ and not self.supported(alg, op, cfg):
          continue
        res = (alg, cfg, tag)
    return res

  def flat(self):
    return [(rx,) + r for rx in self.order for r in self.rules[rx]]


def op_scope(names):
  """Scope string of an operator: its output tensor names, each followed by ';'."""
  return ''.join(n + ';' for n in names)
