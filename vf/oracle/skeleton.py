"""Alias-collapse of inserted QUANTIZE/DEQUANTIZE operators and structural diff
against the source model (C02, C19; gives C03/C04/C05 their operator mapping).

"Inserted" is decided semantically: a QUANTIZE/DEQUANTIZE operator with one
input and one output whose output tensor index is >= the source subgraph's
tensor count -- never by a name suffix.
"""
import flatbuffers
import numpy as np
from ai_edge_litert import schema_py_generated as S
from tensorflow.lite.tools import flatbuffer_utils as fu

BO = S.BuiltinOperator
QDQ = (BO.QUANTIZE, BO.DEQUANTIZE)


def opts_bytes(op):
  if op.builtinOptions is None:
    return None
  b = flatbuffers.Builder(64)
  off = op.builtinOptions.Pack(b)
  b.Finish(off)
  return bytes(b.Output())


def _custom(op):
  return None if op.customOptions is None else bytes(np.asarray(op.customOptions, dtype=np.uint8).tobytes())


def code(m, op):
  return m.operatorCodes[op.opcodeIndex].builtinCode


def _shape(t):
  return [] if t.shape is None else [int(d) for d in t.shape]


def _sig(t):
  return None if t.shapeSignature is None else [int(d) for d in t.shapeSignature]


class SubMap:
  def __init__(self):
    self.alias = {}
    self.kept = []
    self.inserted = []
    self.n = 0

  def root(self, t):
    d = 0
    while t in self.alias and d < 10000:
      t = self.alias[t]
      d += 1
    return t


def analyse(src_bytes, out_bytes, ms=None, mo=None):
  """Returns (errors, maps, src_model, out_model)."""
  ms = ms or fu.read_model_from_bytearray(bytearray(src_bytes))
  mo = mo or fu.read_model_from_bytearray(bytearray(out_bytes))
  errs = []
  maps = []
  if len(ms.subgraphs) != len(mo.subgraphs):
    return [('n_subgraphs', len(ms.subgraphs), len(mo.subgraphs))], None, ms, mo
  for si, (a, b) in enumerate(zip(ms.subgraphs, mo.subgraphs)):
    n = len(a.tensors)
    mp = SubMap()
    mp.n = n
    if len(b.tensors) < n:
      errs.append(('tensor_dropped', si))
      maps.append(None)
      continue
    for oi, op in enumerate(b.operators):
      c = code(mo, op)
      if c in QDQ and len(op.outputs) == 1 and int(op.outputs[0]) >= n and len(op.inputs) == 1:
        mp.alias[int(op.outputs[0])] = int(op.inputs[0])
        mp.inserted.append(oi)
      else:
        mp.kept.append(oi)
    root = mp.root
    for ti in range(n):
      ta, tb = a.tensors[ti], b.tensors[ti]
      if ta.name != tb.name:
        errs.append(('renamed', si, ti, ta.name.decode(), tb.name.decode()))
      if _shape(ta) != _shape(tb):
        errs.append(('reshaped', si, ti))
      if _sig(ta) != _sig(tb):
        errs.append(('shape_signature', si, ti))
      if ta.buffer != tb.buffer:
        errs.append(('rebuffered', si, ti))
      if bool(ta.isVariable) != bool(tb.isVariable):
        errs.append(('variable_flag', si, ti))
    for ti in range(n, len(b.tensors)):
      if ti not in mp.alias:
        errs.append(('extra_tensor_not_from_inserted_op', si, ti))
        continue
      r = root(ti)
      if r >= n:
        errs.append(('alias_root_not_original', si, ti))
        continue
      if _shape(b.tensors[ti]) != _shape(a.tensors[r]):
        errs.append(('inserted_shape', si, ti))
    if len(mp.kept) != len(a.operators):
      errs.append(('op_count', si, len(mp.kept), len(a.operators)))
      maps.append(None)
      continue
    for k, (oa, oi) in enumerate(zip(a.operators, mp.kept)):
      ob = b.operators[oi]
      if code(ms, oa) != code(mo, ob):
        errs.append(('opcode', si, k))
        continue
      ca, cb = ms.operatorCodes[oa.opcodeIndex], mo.operatorCodes[ob.opcodeIndex]
      if ca.customCode != cb.customCode or ca.version != cb.version:
        errs.append(('opcode_entry', si, k))
      if opts_bytes(oa) != opts_bytes(ob) or _custom(oa) != _custom(ob) or oa.builtinOptionsType != ob.builtinOptionsType:
        errs.append(('options', si, k))
      if [int(x) for x in oa.outputs] != [int(x) for x in ob.outputs]:
        errs.append(('op_outputs', si, k, [int(x) for x in oa.outputs], [int(x) for x in ob.outputs]))
      want = [int(x) for x in oa.inputs]
      got = [(-1 if int(x) == -1 else root(int(x))) for x in ob.inputs]
      if want != got:
        errs.append(('op_inputs', si, k, want, got))
    if [int(x) for x in a.inputs] != [root(int(x)) for x in b.inputs]:
      errs.append(('graph_inputs', si, [int(x) for x in a.inputs], [root(int(x)) for x in b.inputs]))
    if [int(x) for x in a.outputs] != [root(int(x)) for x in b.outputs]:
      errs.append(('graph_outputs', si, [int(x) for x in a.outputs], [root(int(x)) for x in b.outputs]))
    for la, lb, kind in ((a.inputs, b.inputs, 'in'), (a.outputs, b.outputs, 'out')):
      if len(la) == len(lb):
        for x, y in zip(la, lb):
          if 0 <= int(y) < len(b.tensors) and _shape(a.tensors[int(x)]) != _shape(b.tensors[int(y)]):
            errs.append(('graph_io_shape', si, kind, int(x)))
    if (a.name or b'') != (b.name or b''):
      errs.append(('subgraph_name', si))
    maps.append(mp)
  sa, so = ms.signatureDefs or [], mo.signatureDefs or []
  if len(sa) != len(so):
    errs.append(('n_signatures', len(sa), len(so)))
  else:
    for x, y in zip(sa, so):
      if x.signatureKey != y.signatureKey or x.subgraphIndex != y.subgraphIndex:
        errs.append(('sig_key', x.signatureKey, y.signatureKey))
        continue
      ga, gb = ms.subgraphs[x.subgraphIndex], mo.subgraphs[y.subgraphIndex]
      for kind, ea, eb, la, lb in (('in', x.inputs, y.inputs, list(ga.inputs), list(gb.inputs)),
                                   ('out', x.outputs, y.outputs, list(ga.outputs), list(gb.outputs))):
        if [t.name for t in ea] != [t.name for t in eb]:
          errs.append(('sig_arg_names', kind))
          continue
        for ta, tb in zip(ea, eb):
          pos = [int(v) for v in la].index(int(ta.tensorIndex)) if int(ta.tensorIndex) in [int(v) for v in la] else None
          if pos is None:
            continue
          if pos >= len(lb) or int(tb.tensorIndex) != int(lb[pos]):
            errs.append(('sig_' + kind + '_not_subgraph_io', y.signatureKey.decode(), tb.name.decode(),
                         int(tb.tensorIndex), int(lb[pos]) if pos < len(lb) else None))
  return errs, maps, ms, mo
