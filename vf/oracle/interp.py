"""Interpreter helpers.  Calls on quantizer output must go through ctx.risky()."""
import numpy as np
from ai_edge_litert import interpreter as tfl


def make(content, preserve=True, reference=False):
  return tfl.Interpreter(
      model_content=bytes(content),
      experimental_op_resolver_type=(tfl.OpResolverType.BUILTIN_REF if reference
                                     else tfl.OpResolverType.BUILTIN_WITHOUT_DEFAULT_DELEGATES),
      experimental_preserve_all_tensors=preserve)


def run_signature(it, key, inputs):
  """inputs: arg -> ndarray already of the tensor's dtype.  Returns arg -> ndarray."""
  r = it.get_signature_runner(key)
  return r(**inputs)


def subgraph_index(it, key):
  return it.get_signature_runner(key)._subgraph_index  # pylint: disable=protected-access


def all_tensors(it, sg=0):
  """name -> (detail, value) for every named, readable tensor of subgraph sg."""
  out = {}
  for d in it.get_tensor_details(sg):
    if not d['name'] or d['dtype'] == np.object_:
      continue
    try:
      out[d['name']] = (d, np.array(it.get_tensor(d['index'], sg)))
    except ValueError:
      continue
  return out


def float_run(content, sig, inputs, want_tensors=False):
  """Runs a float model; returns (outputs, tensors|None).  Raises on failure."""
  it = make(content)
  it.allocate_tensors()
  outs = run_signature(it, sig['key'], inputs)
  tens = all_tensors(it, subgraph_index(it, sig['key'])) if want_tensors else None
  return outs, tens


def admit(content, sig, inputs):
  """Float model must allocate, invoke and keep every float tensor finite (an overflowing intermediate can hide behind a squashing
  operator -- tanh(inf) = 1 -- and leaves statistics no finite scale can represent)."""
  try:
    outs, tens = float_run(content, sig, inputs, want_tensors=True)
  except Exception as e:  # pylint: disable=broad-except
    return False, f'{type(e).__name__}: {str(e)[:200]}'
  for k, v in outs.items():
    if not np.all(np.isfinite(v)):
      return False, 'non-finite float output'
  declared = None
  for name, (det, v) in (tens or {}).items():
    if v.dtype == np.float32 and v.size and not np.all(np.isfinite(v)):
      if declared is None:
        from vf.gen import models
        declared = {t.name.decode() for sg in models.read(content).subgraphs for t in sg.tensors}
      if name in declared:       # interpreter scratch tensors hold uninitialised memory
        return False, 'non-finite float activation'
  return True, ''


def quant_run(content, key, float_inputs, want_tensors=False):
  """Runs a (possibly quantized) model on float inputs.

  Integer model inputs are quantized with the tensor's own parameters by this
  oracle (round half to even, clip to dtype range).  Returns
  (raw_outputs, out_details, tensors|None).
  """
  it = make(content)
  it.allocate_tensors()
  r = it.get_signature_runner(key)
  feed = {}
  for arg, d in r.get_input_details().items():
    x = float_inputs[arg]
    sc = d['quantization_parameters']['scales']
    if len(sc) and np.issubdtype(d['dtype'], np.integer) and x.dtype.kind == 'f':
      zp = d['quantization_parameters']['zero_points']
      info = np.iinfo(d['dtype'])
      q = np.rint(x.astype(np.float64) / float(sc[0])) + int(zp[0])
      x = np.clip(q, info.min, info.max).astype(d['dtype'])
    feed[arg] = x
  outs = r(**feed)
  od = r.get_output_details()
  tens = all_tensors(it, r._subgraph_index) if want_tensors else None  # pylint: disable=protected-access
  return outs, od, tens


def dequant_output(v, d):
  sc = d['quantization_parameters']['scales']
  if len(sc) and np.issubdtype(v.dtype, np.integer):
    zp = d['quantization_parameters']['zero_points']
    return (v.astype(np.int64) - int(zp[0])).astype(np.float64) * float(sc[0])
  return v.astype(np.float64)
