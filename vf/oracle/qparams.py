"""Reference (scale, zero point) from (min, max, bits, symmetric) -- TFLite quantization spec,
float64, independent of the library.  Zero is always inside the range; minimum range 1e-4
(the library's documented floor); symmetric uses the narrow range [-qmax, qmax]."""
import numpy as np

MIN_BOUND = 1e-4


def zs(mn, mx, bits, symmetric):
  """Returns (scale float64 array, unrounded zero point float64 array)."""
  mn = np.asarray(mn, dtype=np.float64)
  mx = np.asarray(mx, dtype=np.float64)
  qmax = 2.0 ** (bits - 1) - 1
  qmin = -(2.0 ** (bits - 1))
  if symmetric:
    bound = np.maximum(np.maximum(np.abs(mn), np.abs(mx)), MIN_BOUND)
    return bound / qmax, np.zeros_like(bound)
  lo = np.minimum(mn, 0.0)
  hi = np.maximum(mx, 0.0)
  width = np.maximum(hi - lo, MIN_BOUND)
  scale = width / (qmax - qmin)
  return scale, qmin - lo / scale


def matches(scale, zp, ref_scale, ref_zp_unrounded, bits, rel=1e-5):
  """actual (float32 scale array, int zp array) against the reference; zero point exact unless the
  unrounded reference is within a float32-resolution band of a rounding tie, then +-1."""
  scale = np.asarray(scale, dtype=np.float64).reshape(-1)
  zp = np.asarray(zp, dtype=np.int64).reshape(-1)
  rs = np.asarray(ref_scale, dtype=np.float64).reshape(-1)
  rz = np.asarray(ref_zp_unrounded, dtype=np.float64).reshape(-1)
  if scale.shape != rs.shape or zp.shape != rz.shape:
    return False
  if not np.all(np.abs(scale - rs) <= rel * np.abs(rs)):
    return False
  exact = np.rint(rz)
  band = 2e-3 if bits <= 8 else 4e-2
  tie = np.abs(np.abs(rz - np.floor(rz)) - 0.5) < band
  ok = (zp == exact) | (tie & (np.abs(zp - rz) <= 0.5 + band))
  return bool(np.all(ok))


def fixed_range_minmax(scale, zp, bits, producer_symmetric):
  qmax = 2.0 ** (bits - 1) - 1
  qmin = -(2.0 ** (bits - 1))
  lo = (qmin - zp) * scale
  hi = (qmax - zp) * scale
  if producer_symmetric:
    lo = -hi
  return lo, hi


WEIGHT_AXIS = {'FULLY_CONNECTED': 0, 'CONV_2D': 0, 'DEPTHWISE_CONV_2D': 3, 'CONV_2D_TRANSPOSE': 0, 'EMBEDDING_LOOKUP': 0}


def weight_axis(op_name, rank, adj_y=False):
  """Quantized dimension the runtime kernel expects for per-channel weights (TFLite spec page)."""
  if op_name == 'BATCH_MATMUL':
    return rank - 2 if adj_y else rank - 1
  return WEIGHT_AXIS[op_name]
