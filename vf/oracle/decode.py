"""Independent decoder of TFLite constant storage and quantization annotations.

INT4: two values per byte, low nibble first, sign-extended; INT8/16/32/64 and
FLOAT16/32 little endian.  Dequantisation in float32 the way the runtime's
DEQUANTIZE kernel does it: scale * (q - zero_point), per-axis along
quantizedDimension.  Imports nothing from ai_edge_quantizer.
"""
import numpy as np
from ai_edge_litert import schema_py_generated as S

TT = S.TensorType
NP = {TT.FLOAT32: np.float32, TT.FLOAT16: np.float16, TT.INT8: np.int8, TT.INT16: np.int16,
      TT.INT32: np.int32, TT.INT64: np.int64, TT.UINT8: np.uint8, TT.BOOL: np.bool_}
INT_TYPES = (TT.INT4, TT.INT8, TT.INT16, TT.INT32, TT.INT64)
TYPE_NAME = {v: k for k, v in vars(TT).items() if isinstance(v, int)}


def shape_of(t):
  return tuple(int(d) for d in (t.shape if t.shape is not None else []))


def raw(buf):
  return None if buf.data is None else bytes(np.asarray(buf.data, dtype=np.uint8).tobytes())


def expected_nbytes(t):
  n = int(np.prod(shape_of(t))) if len(shape_of(t)) else 1
  if t.type == TT.INT4:
    return (n + 1) // 2
  return n * np.dtype(NP[t.type]).itemsize


def decode(t, data):
  """bytes -> ndarray of the tensor's logical integer/float values (no dequantisation)."""
  shape = shape_of(t)
  n = int(np.prod(shape)) if len(shape) else 1
  if t.type == TT.INT4:
    b = np.frombuffer(data, dtype=np.uint8)
    lo = (b & 0x0F).astype(np.int8)
    hi = ((b >> 4) & 0x0F).astype(np.int8)
    v = np.empty(b.size * 2, dtype=np.int8)
    v[0::2] = lo
    v[1::2] = hi
    v = np.where(v >= 8, v - 16, v).astype(np.int8)
    return v[:n].reshape(shape)
  return np.frombuffer(data, dtype=NP[t.type])[:n].reshape(shape)


def qparams(t):
  """(scale float32[k], zero_point int64[k], axis) or None."""
  q = t.quantization
  if q is None or q.scale is None or len(q.scale) == 0:
    return None
  sc = np.asarray(q.scale, dtype=np.float32)
  zp = np.asarray(q.zeroPoint if q.zeroPoint is not None else [], dtype=np.int64)
  return sc, zp, int(q.quantizedDimension or 0)


def dequantize(values, t):
  """Runtime-style dequantisation of integer values with the tensor's own parameters."""
  qp = qparams(t)
  if qp is None:
    raise ValueError('tensor has no quantization parameters')
  sc, zp, axis = qp
  v = np.asarray(values).astype(np.int64)
  if sc.size == 1:
    return (sc[0] * (v - (zp[0] if zp.size else 0)).astype(np.float32)).astype(np.float32)
  shp = [1] * v.ndim
  shp[axis] = sc.size
  z = zp.reshape(shp) if zp.size == sc.size else np.zeros(shp, dtype=np.int64)
  return (sc.reshape(shp) * (v - z).astype(np.float32)).astype(np.float32)


def quantize_like(x, t):
  """Quantizes float x to the integer grid of tensor t (used for model inputs)."""
  sc, zp, _ = qparams(t)
  info = np.iinfo(NP[t.type])
  q = np.rint(np.asarray(x, dtype=np.float64) / float(sc[0])) + int(zp[0])
  return np.clip(q, info.min, info.max).astype(NP[t.type])
