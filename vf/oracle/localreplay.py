"""Decomposition of an end-to-end deviation of a full-integer model into LOCAL facts (used by C07 / C13).

A quantized model deviates from the float model for two kinds of reasons: each operator adds a rounding error of the
order of its own output step (legitimate, and then carried -- possibly amplified -- by the rest of the float network),
or something is wrong (a kernel that does not compute what the tensor annotations say, parameters that do not fit the
values).  This module decides which, operator by operator, from ONE observed execution of the quantized model:

  * local consistency: for every operator of the SOURCE model, a single-operator float model (constants replaced by the
    dequantized constants the output model stores) is run on the dequantized values its quantized counterpart actually
    READ in the observed execution; its result, clipped to the representable range of the quantized output tensor, must
    equal the dequantized value the quantized operator actually WROTE within T(op) output steps;
  * adequacy: the representable range of every quantized runtime tensor covers the range the same tensor has in the
    float run (up to 2 steps), and its step is not more than COARSE times the ideal step for that range -- except where
    the TFLite quantization spec dictates the parameters (fixed-range outputs, tensors tied to another tensor's scale).

If both hold for every operator, the end-to-end deviation is rounding carried by the float network itself: the
quantizer and the kernels did what they are specified to do.  Nothing here imports ai_edge_quantizer.
"""
import numpy as np
from ai_edge_litert import interpreter as tfl
from ai_edge_litert import schema_py_generated as S
from vf.oracle import refmodel, skeleton

BO = S.BuiltinOperator
TT = S.TensorType
NAMES = {v: k for k, v in vars(BO).items() if isinstance(v, int)}

# operators whose OUTPUT parameters are dictated by the kernel (fixed range) ...
FIXED_RANGE = {BO.SOFTMAX, BO.LOGISTIC, BO.TANH}
# ... or tied to their input's parameters (same scale as input)
SAME_AS_INPUT = {BO.RESHAPE, BO.TRANSPOSE, BO.STRIDED_SLICE, BO.SPLIT, BO.AVERAGE_POOL_2D, BO.MAX_POOL_2D, BO.CONCATENATION,
                 BO.SQUEEZE, BO.EXPAND_DIMS, BO.GATHER, BO.SLICE, BO.PAD, BO.PADV2, BO.MIRROR_PAD, BO.RESIZE_BILINEAR,
                 BO.RESIZE_NEAREST_NEIGHBOR, BO.TILE, BO.PACK, BO.UNPACK, BO.REVERSE_V2, BO.BROADCAST_TO, BO.SELECT_V2,
                 BO.DYNAMIC_UPDATE_SLICE, BO.SPACE_TO_DEPTH, BO.DEPTH_TO_SPACE, BO.GATHER_ND, BO.RELU, BO.RELU6, BO.MINIMUM,
                 BO.MAXIMUM}
COARSE = 4.0

# Local tolerance in OUTPUT STEPS.  Measured on the unchanged tree over 35 689 models (VERIF_C07_LOCAL_ALWAYS=1 ./check C07
# thorough, 2026-10-02): every 8-bit kernel stays within 0.75 steps of the float replay on its own inputs (linear kernels round once;
# the bias lives in the much finer input*weight scale), 16-bit linear kernels within 1.45, int16 ADD/SUB 6.1, TANH 2.8, LOGISTIC 1.4
# and the fixed-point approximations of SOFTMAX 77, RSQRT 46, GELU 556 steps.  The tolerances are 2.5-4x those maxima; the
# LiteRT kernels are the trusted base here, not the code under test.  (BATCH_MATMUL with a constant channel-wise RHS is off by
# the whole range -- the open finding KF-BMM-CONST-RHS-CHANNELWISE-SRQ -- and is exactly what this oracle points at.)
T_DEFAULT = {8: 2.0, 16: 4.0}
T_OP = {
    (BO.ADD, 16): 16.0, (BO.SUB, 16): 16.0, (BO.TANH, 16): 8.0, (BO.LOGISTIC, 16): 8.0,
    (BO.SOFTMAX, 16): 256.0, (BO.RSQRT, 16): 128.0, (BO.GELU, 16): 2048.0,
}


def tolerance(code, bits):
  return T_OP.get((code, bits), T_DEFAULT.get(bits, 4.0))


def _params(det):
  qp = det['quantization_parameters']
  sc = np.asarray(qp['scales'], dtype=np.float64)
  zp = np.asarray(qp['zero_points'], dtype=np.int64)
  return sc, zp, int(qp['quantized_dimension'])


def _deq(det, v):
  sc, zp, qd = _params(det)
  if sc.size == 0 or not np.issubdtype(v.dtype, np.integer):
    return np.asarray(v)
  if sc.size > 1:
    shp = [1] * v.ndim
    shp[qd] = -1
    sc, zp = sc.reshape(shp), zp.reshape(shp)
  return ((v.astype(np.int64) - zp).astype(np.float64) * sc).astype(np.float32)


class Report:
  def __init__(self):
    self.available = True
    self.reason = None
    self.ops = 0
    self.local = []        # (op name, bits, deviation in steps, tolerance)
    self.culprits = []     # dicts
    self.max_steps = {}    # 'OP:bits' -> max deviation in steps

  @property
  def explained(self):
    return self.available and self.ops > 0 and not self.culprits


def explain(src_bytes, ms, out_bytes, sig, f_tens, q_tens):
  """Report for subgraph sig['subgraph'] of one observed execution (q_tens: name -> (detail, value) of the quantized run, f_tens: same for
  the float run)."""
  rep = Report()
  errs, maps, ms, mo = skeleton.analyse(src_bytes, out_bytes, ms=ms)
  if [e for e in errs if not e[0].startswith('sig_')] or maps is None or any(m is None for m in maps):
    rep.available, rep.reason = False, 'skeleton_broken'
    return rep
  ov = refmodel.overrides(ms, mo, maps)
  if ov is None:
    rep.available, rep.reason = False, 'rewritten_constants_inconsistent'
    return rep
  si = sig['subgraph']
  a, b = ms.subgraphs[si], mo.subgraphs[si]
  mp = maps[si]
  by_index = {int(d['index']): (d, v) for _, (d, v) in q_tens.items()}
  consumers = {}
  for op in a.operators:
    for i in op.inputs:
      if int(i) >= 0:
        consumers.setdefault(int(i), []).append(skeleton.code(ms, op))
  producer_code = {int(o): skeleton.code(ms, op) for op in a.operators for o in op.outputs}

  def adequacy(t0, det, code_for_msg):
    """Range coverage / coarseness of a quantized runtime tensor against the float run."""
    name = a.tensors[t0].name.decode()
    if name not in f_tens:
      return
    fv = f_tens[name][1]
    if fv.dtype != np.float32 or fv.size == 0:
      return
    sc, zp, _ = _params(det)
    if sc.size != 1 or not np.issubdtype(det['dtype'], np.integer):
      return
    s, z = float(sc[0]), int(zp[0])
    info = np.iinfo(det['dtype'])
    bits = info.bits
    lo, hi = (info.min - z) * s, (info.max - z) * s
    fmin, fmax = float(np.min(fv)), float(np.max(fv))
    slack = 2.0 * s + 1e-6 * max(abs(fmin), abs(fmax))
    if lo > min(fmin, 0.0) + slack or hi < max(fmax, 0.0) - slack:
      rep.culprits.append({'what': 'range_does_not_cover_float_values', 'tensor_of': code_for_msg, 'bits': bits,
                           'representable': [lo, hi], 'float': [fmin, fmax]})
    pc = producer_code.get(t0)
    tied = pc in FIXED_RANGE or pc in SAME_AS_INPUT or any(c in SAME_AS_INPUT for c in consumers.get(t0, []))
    ideal = (max(fmax, 0.0) - min(fmin, 0.0)) / (2.0 ** bits - 1)
    if not tied and (fmax - fmin) > 1e-3 and s > COARSE * ideal:
      rep.culprits.append({'what': 'step_much_coarser_than_the_float_range_needs', 'tensor_of': code_for_msg, 'bits': bits,
                           'step': s, 'ideal_step': ideal})

  for ti in a.inputs:
    ti = int(ti)
    if ti in by_index:
      adequacy(ti, by_index[ti][0], 'INPUT')
  for k, oa in enumerate(a.operators):
    ob = b.operators[mp.kept[k]]
    code = skeleton.code(ms, oa)
    opn = NAMES.get(code, str(code))
    const_override = {}
    feeds = {}
    ok = True
    for t0, t1 in zip(oa.inputs, ob.inputs):
      t0, t1 = int(t0), int(t1)
      if t0 < 0:
        continue
      ta = a.tensors[t0]
      d = ms.buffers[ta.buffer].data
      if d is not None and len(d) > 0:
        if (si, t0) in ov:
          const_override[t0] = ov[(si, t0)]
        continue
      if t1 not in by_index:
        ok = False
        break
      det, v = by_index[t1]
      feeds[t0] = _deq(det, v) if ta.type == TT.FLOAT32 else v
    if not ok:
      continue
    try:
      model, remap = refmodel.single_op_model(ms, a, oa, const_override)
      it = tfl.Interpreter(model_content=model, experimental_op_resolver_type=tfl.OpResolverType.BUILTIN_WITHOUT_DEFAULT_DELEGATES)
      it.allocate_tensors()
      in_idx = {d['index'] for d in it.get_input_details()}
      for t0, val in feeds.items():
        if remap[t0] in in_idx:
          it.set_tensor(remap[t0], np.asarray(val, dtype=np.float32) if a.tensors[t0].type == TT.FLOAT32 else val)
      it.invoke()
    except Exception:  # pylint: disable=broad-except
      continue
    rep.ops += 1
    for t0, t1 in zip(oa.outputs, ob.outputs):
      t0, t1 = int(t0), int(t1)
      if t1 not in by_index:
        continue
      det, v = by_index[t1]
      ref = it.get_tensor(remap[t0]).astype(np.float64)
      if ref.size == 0 or ref.shape != v.shape:
        continue
      sc, zp, _ = _params(det)
      if sc.size != 1 or not np.issubdtype(v.dtype, np.integer):
        got = np.asarray(v, dtype=np.float64)
        if v.dtype.kind == 'f':
          scale = max(1.0, float(np.max(np.abs(ref))))
          if float(np.max(np.abs(ref - got))) > 1e-4 * scale:
            rep.culprits.append({'what': 'float_operator_differs_from_replay', 'op': opn})
        continue
      s, z = float(sc[0]), int(zp[0])
      info = np.iinfo(v.dtype)
      lo, hi = (info.min - z) * s, (info.max - z) * s
      got = (v.astype(np.int64) - z).astype(np.float64) * s
      dev = float(np.max(np.abs(np.clip(ref, lo, hi) - got))) / s if np.all(np.isfinite(ref)) else float('inf')
      tol = tolerance(code, info.bits)
      key = f'{opn}:{info.bits}'
      rep.max_steps[key] = max(rep.max_steps.get(key, 0.0), dev)
      rep.local.append((opn, info.bits, dev, tol))
      if dev > tol:
        rep.culprits.append({'what': 'operator_output_differs_from_float_replay_on_its_own_inputs', 'op': opn, 'bits': info.bits,
                             'deviation_steps': dev, 'tolerance_steps': tol})
      adequacy(t0, det, opn)
  return rep
