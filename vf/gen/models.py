"""Float TFLite models in converter normal form, built straight from the schema.

Converter normal form (what the TFLite converter emits and what the quantizer
documents as its input): buffer 0 is the empty sentinel, every activation
tensor owns an empty buffer, every constant owns (or shares) a data buffer,
tensor names are unique model-wide, each subgraph has one signature, every
graph input is consumed, no graph input is directly a graph output, no
zero-size runtime tensor.

Nothing here imports ai_edge_quantizer.
"""
import dataclasses
import numpy as np
from ai_edge_litert import schema_py_generated as S
from tensorflow.lite.tools import flatbuffer_utils

BO = S.BuiltinOperator
TT = S.TensorType

SUPPORTED_CODES = {
    BO.FULLY_CONNECTED: 'FULLY_CONNECTED', BO.BATCH_MATMUL: 'BATCH_MATMUL',
    BO.CONV_2D: 'CONV_2D', BO.DEPTHWISE_CONV_2D: 'DEPTHWISE_CONV_2D',
    BO.TRANSPOSE_CONV: 'CONV_2D_TRANSPOSE', BO.EMBEDDING_LOOKUP: 'EMBEDDING_LOOKUP',
    BO.SOFTMAX: 'SOFTMAX', BO.AVERAGE_POOL_2D: 'AVERAGE_POOL_2D',
    BO.RESHAPE: 'RESHAPE', BO.TANH: 'TANH', BO.TRANSPOSE: 'TRANSPOSE',
    BO.GELU: 'GELU', BO.ADD: 'ADD', BO.SUB: 'SUB', BO.MUL: 'MUL',
    BO.MEAN: 'MEAN', BO.RSQRT: 'RSQRT', BO.CONCATENATION: 'CONCATENATION',
    BO.STRIDED_SLICE: 'STRIDED_SLICE', BO.SPLIT: 'SPLIT', BO.LOGISTIC: 'LOGISTIC',
}
CODE_NAMES = {v: k for k, v in vars(BO).items() if isinstance(v, int)}


class B:
  """Thin model builder over the flatbuffer object API."""

  def __init__(self):
    self.m = S.ModelT()
    self.m.version = 3
    self.m.description = b'verif'
    self.m.buffers = [S.BufferT()]  # sentinel
    self.m.operatorCodes = []
    self.m.subgraphs = []
    self.m.signatureDefs = []
    self.m.metadata = []

  def opcode(self, code):
    for i, c in enumerate(self.m.operatorCodes):
      if c.builtinCode == code:
        return i
    c = S.OperatorCodeT()
    c.builtinCode = code
    c.deprecatedBuiltinCode = min(code, 127)
    c.version = 1
    self.m.operatorCodes.append(c)
    return len(self.m.operatorCodes) - 1

  def subgraph(self, name):
    sg = S.SubGraphT()
    sg.name = name.encode()
    sg.tensors = []
    sg.operators = []
    sg.inputs = []
    sg.outputs = []
    self.m.subgraphs.append(sg)
    return sg

  def act(self, sg, name, shape, ttype=TT.FLOAT32):
    b = S.BufferT()
    self.m.buffers.append(b)
    t = S.TensorT()
    t.name = name.encode()
    t.shape = [int(d) for d in shape]
    t.type = ttype
    t.buffer = len(self.m.buffers) - 1
    sg.tensors.append(t)
    return len(sg.tensors) - 1

  def new_buffer(self, arr):
    b = S.BufferT()
    b.data = np.frombuffer(np.ascontiguousarray(arr).tobytes(), dtype=np.uint8)
    self.m.buffers.append(b)
    return len(self.m.buffers) - 1

  def const(self, sg, name, arr, buffer=None):
    arr = np.asarray(arr)
    ttype = {np.dtype('float32'): TT.FLOAT32, np.dtype('int32'): TT.INT32}[arr.dtype]
    if buffer is None:
      buffer = self.new_buffer(arr)
    t = S.TensorT()
    t.name = name.encode()
    t.shape = [int(d) for d in arr.shape]
    t.type = ttype
    t.buffer = buffer
    sg.tensors.append(t)
    return len(sg.tensors) - 1

  def op(self, sg, code, inputs, outputs, opts=None, opts_type=0):
    o = S.OperatorT()
    o.opcodeIndex = self.opcode(code)
    o.inputs = [int(i) for i in inputs]
    o.outputs = [int(i) for i in outputs]
    if opts is not None:
      o.builtinOptions = opts
      o.builtinOptionsType = opts_type
    sg.operators.append(o)
    return len(sg.operators) - 1

  def signature(self, key, sg_index, inputs, outputs):
    s = S.SignatureDefT()
    s.signatureKey = key.encode()
    s.subgraphIndex = sg_index
    s.inputs = []
    s.outputs = []
    for n, ti in inputs:
      tm = S.TensorMapT()
      tm.name = n.encode()
      tm.tensorIndex = ti
      s.inputs.append(tm)
    for n, ti in outputs:
      tm = S.TensorMapT()
      tm.name = n.encode()
      tm.tensorIndex = ti
      s.outputs.append(tm)
    self.m.signatureDefs.append(s)

  def build(self):
    if getattr(self, 'empty_quant', False):
      # converter style: an EMPTY QuantizationParameters table on every tensor instead of none
      for sg in self.m.subgraphs:
        for t in sg.tensors:
          if t.quantization is None:
            t.quantization = S.QuantizationParametersT()
    return bytes(flatbuffer_utils.convert_object_to_bytearray(self.m))


class G:
  """Op library over one subgraph: each method appends an op, returns its output id(s)."""

  def __init__(self, b, name, prefix, rng, sep='_'):
    self.b = b
    self.sg = b.subgraph(name)
    self.p = prefix
    self.rng = rng
    self.n = 0
    self.sep = sep
    self.shape = {}
    self.positive = set()   # tensors known to be > 0
    self.in_meta = {}       # input tensor id -> ('float'|'ids', vocab)
    self.classes = set()    # topology classes present

  def nm(self, base):
    self.n += 1
    return f'{self.p}{base}{self.sep}{self.n}'

  def inp(self, shape, ttype=TT.FLOAT32, name=None, vocab=0):
    t = self.b.act(self.sg, name or self.nm('in'), shape, ttype)
    self.shape[t] = tuple(shape)
    self.sg.inputs.append(t)
    self.in_meta[t] = ('ids', vocab) if ttype == TT.INT32 else ('float', 0)
    return t

  def act(self, base, shape):
    t = self.b.act(self.sg, self.nm(base), shape)
    self.shape[t] = tuple(shape)
    return t

  def const(self, base, arr, buffer=None, name=None):
    t = self.b.const(self.sg, name or self.nm(base), arr, buffer)
    self.shape[t] = tuple(np.asarray(arr).shape)
    return t

  def w(self, shape, scale=1.0):
    r = self.rng
    kind = r.random()
    a = r.normal(size=shape) * scale
    if getattr(self, 'huge_w_p', 0.0) and r.random() < self.huge_w_p:
      # beyond the float16 range (65504): a float16 cast must give +-inf there, an integer quantizer a very coarse step
      return (np.asarray(a) * float(r.choice([7e4, 1e5, 3e6]))).astype(np.float32)
    if kind < 0.06:
      a = np.abs(a) + 0.01            # one-signed
    elif kind < 0.10:
      a = -np.abs(a) - 0.01
    elif kind < 0.13:
      a = a * 1e-3                     # tiny
    elif kind < 0.16:
      a = a * 30.0                     # large
    elif kind < 0.20:
      a = np.where(r.random(np.shape(a)) < 0.35, 0.0, a)          # sparse: exact zeros
    elif kind < 0.23 and np.ndim(a) >= 2:
      a = np.array(a)
      ax = int(r.integers(np.ndim(a)))                           # one whole slice exactly zero (a dead channel on some axis)
      idx = [slice(None)] * np.ndim(a)
      idx[ax] = int(r.integers(a.shape[ax]))
      a[tuple(idx)] = 0.0
    elif kind < 0.25:
      a = np.full(np.shape(a), float(r.choice([-1.5, 0.25, 3.0])))   # min == max
    elif kind < 0.28:
      a = (np.round(a * 4.0) + 0.5) * 0.125                      # values on a dyadic grid: rounding ties when the scale is dyadic too
    elif kind < 0.30:
      a = np.where(r.random(np.shape(a)) < 0.2, -0.0, a)          # negative zeros
    return np.asarray(a).astype(np.float32)

  def op(self, code, ins, outs, opts=None, ot=0):
    return self.b.op(self.sg, code, ins, outs, opts, ot)

  # ---- supported ops
  def fc(self, x, units, bias=True, act=0, keep=False, w=None, b=None):
    sh = self.shape[x]
    cin = sh[-1]
    w = self.const('fc_w', self.w((units, cin), 0.5)) if w is None else w
    bt = (self.const('fc_b', self.w((units,))) if b is None else b) if bias else -1
    o = S.FullyConnectedOptionsT()
    o.fusedActivationFunction = act
    o.keepNumDims = keep
    osh = (sh[:-1] + (units,)) if keep else (int(np.prod(sh[:-1])), units)
    y = self.act('fc', osh)
    ins = [x, w, bt]
    if bt == -1 and self.rng.random() < 0.4:
      ins = [x, w]            # the optional bias omitted altogether (2 operands) instead of marked -1
      self.classes.add('optional_operand_omitted')
    self.op(BO.FULLY_CONNECTED, ins, [y], o, S.BuiltinOptions.FullyConnectedOptions)
    return y

  def conv(self, x, cout, k=3, stride=1, same=True, bias=True, act=0):
    n, h, wd, c = self.shape[x]
    w = self.const('conv_w', self.w((cout, k, k, c), 0.3))
    bt = self.const('conv_b', self.w((cout,))) if bias else -1
    o = S.Conv2DOptionsT()
    o.padding = 0 if same else 1
    o.strideH = o.strideW = stride
    o.dilationHFactor = o.dilationWFactor = 1
    o.fusedActivationFunction = act
    oh = -(-h // stride) if same else (h - k) // stride + 1
    ow = -(-wd // stride) if same else (wd - k) // stride + 1
    y = self.act('conv', (n, oh, ow, cout))
    self.op(BO.CONV_2D, [x, w, bt], [y], o, S.BuiltinOptions.Conv2DOptions)
    return y

  def dwconv(self, x, mult=1, k=3, stride=1, same=True, bias=True, act=0):
    n, h, wd, c = self.shape[x]
    w = self.const('dw_w', self.w((1, k, k, c * mult), 0.3))
    bt = self.const('dw_b', self.w((c * mult,))) if bias else -1
    o = S.DepthwiseConv2DOptionsT()
    o.padding = 0 if same else 1
    o.strideH = o.strideW = stride
    o.dilationHFactor = o.dilationWFactor = 1
    o.depthMultiplier = mult
    o.fusedActivationFunction = act
    oh = -(-h // stride) if same else (h - k) // stride + 1
    ow = -(-wd // stride) if same else (wd - k) // stride + 1
    y = self.act('dwconv', (n, oh, ow, c * mult))
    self.op(BO.DEPTHWISE_CONV_2D, [x, w, bt], [y], o, S.BuiltinOptions.DepthwiseConv2DOptions)
    return y

  def tconv(self, x, cout, k=2, stride=2, bias=True):
    n, h, wd, c = self.shape[x]
    oh, ow = h * stride, wd * stride  # SAME
    osh = self.const('tconv_shape', np.array([n, oh, ow, cout], dtype=np.int32))
    w = self.const('tconv_w', self.w((cout, k, k, c), 0.3))
    ins = [osh, w, x] + ([self.const('tconv_b', self.w((cout,)))] if bias else [])
    o = S.TransposeConvOptionsT()
    o.padding = 0
    o.strideH = o.strideW = stride
    y = self.act('tconv', (n, oh, ow, cout))
    self.op(BO.TRANSPOSE_CONV, ins, [y], o, S.BuiltinOptions.TransposeConvOptions)
    return y

  def bmm(self, x, y=None, n_out=4, adj_x=False, adj_y=False):
    sh = self.shape[x]
    k = sh[-2] if adj_x else sh[-1]
    if y is None:
      ysh = sh[:-2] + ((n_out, k) if adj_y else (k, n_out))
      y = self.const('bmm_w', self.w(ysh, 0.5))
    ysh = self.shape[y]
    n = ysh[-2] if adj_y else ysh[-1]
    m = sh[-1] if adj_x else sh[-2]
    o = S.BatchMatMulOptionsT()
    o.adjX = adj_x
    o.adjY = adj_y
    z = self.act('bmm', sh[:-2] + (m, n))
    self.op(BO.BATCH_MATMUL, [x, y], [z], o, S.BuiltinOptions.BatchMatMulOptions)
    return z

  def bmm_const_lhs(self, y, n_rows=3, adj_x=False, adj_y=False):
    """BATCH_MATMUL whose FIRST operand is the constant (A @ y): const shape follows adj_x."""
    ysh = self.shape[y]
    k = ysh[-1] if adj_y else ysh[-2]
    n = ysh[-2] if adj_y else ysh[-1]
    ash = ysh[:-2] + ((k, n_rows) if adj_x else (n_rows, k))
    a = self.const('bmm_lhs', self.w(ash, 0.5))
    o = S.BatchMatMulOptionsT()
    o.adjX = adj_x
    o.adjY = adj_y
    z = self.act('bmm', ysh[:-2] + (n_rows, n))
    self.op(BO.BATCH_MATMUL, [a, y], [z], o, S.BuiltinOptions.BatchMatMulOptions)
    self.classes.add('bmm_const_lhs')
    return z

  def emb(self, ids, vocab, dim, w=None):
    w = self.const('emb_w', self.w((vocab, dim))) if w is None else w
    y = self.act('emb', self.shape[ids] + (dim,))
    self.op(BO.EMBEDDING_LOOKUP, [ids, w], [y])
    return y

  def avgpool(self, x, k=2, stride=2, act=0):
    n, h, wd, c = self.shape[x]
    o = S.Pool2DOptionsT()
    o.padding = 1
    o.fusedActivationFunction = act
    o.strideH = o.strideW = stride
    o.filterHeight = o.filterWidth = k
    y = self.act('avgpool', (n, (h - k) // stride + 1, (wd - k) // stride + 1, c))
    self.op(BO.AVERAGE_POOL_2D, [x], [y], o, S.BuiltinOptions.Pool2DOptions)
    return y

  def maxpool(self, x, k=2, stride=2, act=0):
    n, h, wd, c = self.shape[x]
    o = S.Pool2DOptionsT()
    o.padding = 1
    o.fusedActivationFunction = act
    o.strideH = o.strideW = stride
    o.filterHeight = o.filterWidth = k
    y = self.act('maxpool', (n, (h - k) // stride + 1, (wd - k) // stride + 1, c))
    self.op(BO.MAX_POOL_2D, [x], [y], o, S.BuiltinOptions.Pool2DOptions)
    return y

  def reshape(self, x, new):
    s = self.const('reshape_shape', np.array(new, dtype=np.int32))
    o = S.ReshapeOptionsT()
    o.newShape = [int(d) for d in new]
    y = self.act('reshape', tuple(new))
    ins = [x, s]
    if self.rng.random() < 0.25:
      ins = [x]               # legacy / 1-operand form: the target shape only in the options
      self.classes.add('optional_operand_omitted')
    self.op(BO.RESHAPE, ins, [y], o, S.BuiltinOptions.ReshapeOptions)
    return y

  def unary(self, code, base, x, opts=None, ot=0, positive=False):
    y = self.act(base, self.shape[x])
    self.op(code, [x], [y], opts, ot)
    if positive:
      self.positive.add(y)
    return y

  def softmax(self, x):
    o = S.SoftmaxOptionsT()
    o.beta = 1.0
    return self.unary(BO.SOFTMAX, 'softmax', x, o, S.BuiltinOptions.SoftmaxOptions)

  def tanh(self, x):
    return self.unary(BO.TANH, 'tanh', x)

  def logistic(self, x):
    return self.unary(BO.LOGISTIC, 'logistic', x, positive=True)

  def gelu(self, x):
    return self.unary(BO.GELU, 'gelu', x, S.GeluOptionsT(), S.BuiltinOptions.GeluOptions)

  def rsqrt(self, x):
    return self.unary(BO.RSQRT, 'rsqrt', x, positive=True)

  def transpose(self, x, perm):
    p = self.const('perm', np.array(perm, dtype=np.int32))
    y = self.act('transpose', tuple(self.shape[x][i] for i in perm))
    self.op(BO.TRANSPOSE, [x, p], [y], S.TransposeOptionsT(), S.BuiltinOptions.TransposeOptions)
    return y

  def binary(self, code, base, a, c, opts, ot):
    sh = np.broadcast_shapes(self.shape[a], self.shape[c])
    y = self.act(base, tuple(sh))
    self.op(code, [a, c], [y], opts, ot)
    return y

  def add(self, a, c, act=0):
    o = S.AddOptionsT()
    o.fusedActivationFunction = act
    return self.binary(BO.ADD, 'add', a, c, o, S.BuiltinOptions.AddOptions)

  def sub(self, a, c, act=0):
    o = S.SubOptionsT()
    o.fusedActivationFunction = act
    return self.binary(BO.SUB, 'sub', a, c, o, S.BuiltinOptions.SubOptions)

  def mul(self, a, c, act=0):
    o = S.MulOptionsT()
    o.fusedActivationFunction = act
    return self.binary(BO.MUL, 'mul', a, c, o, S.BuiltinOptions.MulOptions)

  def mean(self, x, axes, keep=False):
    ax = self.const('mean_axis', np.array(axes, dtype=np.int32))
    o = S.ReducerOptionsT()
    o.keepDims = keep
    sh = self.shape[x]
    axes_n = [a % len(sh) for a in axes]
    osh = tuple((1 if i in axes_n else d) for i, d in enumerate(sh) if keep or i not in axes_n)
    y = self.act('mean', osh)
    self.op(BO.MEAN, [x, ax], [y], o, S.BuiltinOptions.ReducerOptions)
    return y

  def concat(self, xs, axis):
    o = S.ConcatenationOptionsT()
    o.axis = axis
    sh = list(self.shape[xs[0]])
    sh[axis] = sum(self.shape[t][axis] for t in xs)
    y = self.act('concat', tuple(sh))
    self.op(BO.CONCATENATION, list(xs), [y], o, S.BuiltinOptions.ConcatenationOptions)
    return y

  def strided_slice(self, x, begin, end, strides):
    bt = self.const('ss_begin', np.array(begin, dtype=np.int32))
    et = self.const('ss_end', np.array(end, dtype=np.int32))
    st = self.const('ss_strides', np.array(strides, dtype=np.int32))
    osh = tuple(len(range(b_, e_, s_)) for b_, e_, s_ in zip(begin, end, strides))
    y = self.act('strided_slice', osh)
    self.op(BO.STRIDED_SLICE, [x, bt, et, st], [y], S.StridedSliceOptionsT(),
            S.BuiltinOptions.StridedSliceOptions)
    return y

  def split(self, x, axis, num):
    ax = self.const('split_axis', np.array(axis, dtype=np.int32))
    o = S.SplitOptionsT()
    o.numSplits = num
    sh = list(self.shape[x])
    sh[axis] //= num
    ys = [self.act('split', tuple(sh)) for _ in range(num)]
    self.op(BO.SPLIT, [ax, x], ys, o, S.BuiltinOptions.SplitOptions)
    return ys

  # ---- float ops outside the coverage table
  def rnn(self, x, units):
    """Builtin RNN cell (outside the coverage table): a STATEFUL operator whose hidden state is a variable tensor."""
    n, d = self.shape[x]
    wi = self.const('rnn_w', self.w((units, d), 0.5))
    wr = self.const('rnn_r', self.w((units, units), 0.3))
    bb = self.const('rnn_b', self.w((units,), 0.2))
    st = self.act('rnn_state', (n, units))
    self.sg.tensors[st].isVariable = True
    y = self.act('rnn', (n, units))
    o = S.RNNOptionsT()
    o.fusedActivationFunction = S.ActivationFunctionType.TANH
    self.op(BO.RNN, [x, wi, wr, bb, st], [y], o, S.BuiltinOptions.RNNOptions)
    self.classes.add('stateful_op')
    return y

  def relu(self, x):
    y = self.unary(BO.RELU, 'relu', x)
    return y

  def abs(self, x):
    return self.unary(BO.ABS, 'abs', x, S.AbsOptionsT(), S.BuiltinOptions.AbsOptions)

  def neg(self, x):
    return self.unary(BO.NEG, 'neg', x, S.NegOptionsT(), S.BuiltinOptions.NegOptions)

  def leaky_relu(self, x):
    o = S.LeakyReluOptionsT()
    o.alpha = 0.1
    return self.unary(BO.LEAKY_RELU, 'leaky', x, o, S.BuiltinOptions.LeakyReluOptions)

  def maximum(self, a, c):
    return self.binary(BO.MAXIMUM, 'maximum', a, c, S.MaximumMinimumOptionsT(),
                       S.BuiltinOptions.MaximumMinimumOptions)

  def finish(self, outputs, key):
    self.sg.outputs = [int(o) for o in outputs]
    self.b.signature(
        key, self.b.m.subgraphs.index(self.sg),
        [(f'arg{i}', t) for i, t in enumerate(self.sg.inputs)],
        [(f'out{i}', t) for i, t in enumerate(outputs)])


UNARY_SUP = ('tanh', 'logistic', 'gelu', 'softmax')
UNARY_UNSUP = ('relu', 'abs', 'neg', 'leaky_relu')


def rand_graph(g, rng, n_ops=6, allow_unsupported=True, allow_emb=True,
               in_kind=None, allow_bmm_const=True, allow_rsqrt=True,
               export_consumed_p=0.15, only=None, dup_output_p=0.06, big_p=0.06, allow_stateful=True):
  """Populates subgraph g with a random DAG; returns output tensor ids."""
  kind = in_kind or rng.choice(['r2', 'r3', 'r4'], p=[0.45, 0.2, 0.35])
  # realistic widths once in a while: anything that only shows beyond 8 / 16 / 64 / 128 / 256 elements or channels (packing, alignment,
  # per-channel tables, block sizes) is invisible on toy dimensions
  big = bool(rng.random() < big_p)
  if big:
    g.classes.add('wide_tensors')
  if kind == 'r2':
    x = g.inp((int(rng.integers(1, 3)), int(rng.choice([64, 100, 129, 257]) if big else rng.choice([4, 6, 8]))))
  elif kind == 'r3':
    x = g.inp((int(rng.integers(1, 3)), int(rng.integers(2, 4)), int(rng.choice([33, 64, 130]) if big else rng.choice([4, 8]))))
  else:
    x = g.inp((1, int(rng.choice([4, 5, 6])), int(rng.choice([4, 5, 6])), int(rng.choice([8, 17, 33]) if big else rng.integers(1, 4))))
  avail = [x]
  consumed = set()
  if allow_emb and rng.random() < 0.15:
    vocab = 6
    ids = g.inp((int(rng.integers(2, 4)),), TT.INT32, vocab=vocab)
    e = g.emb(ids, vocab, int(rng.choice([4, 8])))
    avail.append(e)
    consumed.add(ids)
  if rng.random() < 0.2:
    avail.append(g.inp(g.shape[x]))

  def pick(pred=lambda t: True):
    c = [t for t in avail if pred(t)]
    if not c:
      return None
    w = np.arange(1, len(c) + 1, dtype=float) ** 1.5
    return c[int(rng.choice(len(c), p=w / w.sum()))]

  rank = lambda t: len(g.shape[t])
  made = 0
  attempts = 0
  while made < n_ops and attempts < n_ops * 6:
    attempts += 1
    t = pick()
    sh = g.shape[t]
    r = rank(t)
    outs = None
    cands = ['tanh', 'logistic', 'gelu', 'softmax', 'add', 'sub', 'mul', 'reshape',
             'transpose', 'mean', 'concat', 'strided_slice', 'split']
    if allow_rsqrt:
      cands.append('rsqrt')
    if allow_unsupported:
      cands += ['relu', 'abs', 'neg', 'maximum', 'leaky_relu']
    if r in (2, 3):
      cands += ['fc', 'fc', 'fc']
    if r == 2 and allow_unsupported and allow_stateful and not big:
      cands += ['rnn']
    if r == 3:
      cands += (['bmm'] if allow_bmm_const else []) + ['bmm_act']
    if r == 2 and allow_bmm_const:
      cands += ['bmm']
    if r == 4:
      cands += ['conv', 'conv', 'dwconv', 'tconv', 'avgpool']
      if allow_unsupported:
        cands.append('maxpool')
    if r == 0:
      cands = [c for c in cands if c in ('tanh', 'logistic', 'gelu', 'add', 'sub', 'mul', 'relu', 'abs', 'neg', 'leaky_relu')]
    if only is not None:
      cands = [c for c in cands if c in only]
      if not cands:
        continue
    k = str(rng.choice(cands))
    ins = [t]
    if k == 'fc':
      outs = [g.fc(t, int(rng.choice([17, 32, 65, 130]) if big else rng.choice([3, 4, 8])), bias=rng.random() < 0.7,
                   act=int(rng.choice([0, 1, 3])), keep=(r == 3 and rng.random() < 0.7))]
    elif k == 'conv':
      outs = [g.conv(t, int(rng.choice([8, 17, 33]) if big else rng.integers(1, 4)), k=int(rng.choice([1, 3])),
                     stride=int(rng.choice([1, 2])), same=bool(rng.random() < 0.6) or min(sh[1], sh[2]) < 3,
                     bias=True, act=int(rng.choice([0, 1])))]
    elif k == 'dwconv':
      outs = [g.dwconv(t, int(rng.choice([1, 2])), k=int(rng.choice([1, 3])), same=True,
                       bias=True, act=int(rng.choice([0, 0, 1, 3])))]
    elif k == 'tconv':
      outs = [g.tconv(t, int(rng.integers(1, 3)), bias=rng.random() < 0.5)]
    elif k == 'rnn':
      outs = [g.rnn(t, int(rng.choice([3, 4])))]
    elif k in ('avgpool', 'maxpool'):
      if min(sh[1], sh[2]) < 2:
        continue
      pact = int(rng.choice([1, 3])) if rng.random() < 0.25 else 0     # relu(avg_pool(x)) is fused by the converter
      if pact:
        g.classes.add('fused_activation_pool')
      outs = [getattr(g, k)(t, act=pact)]
    elif k == 'bmm':
      outs = [g.bmm(t, n_out=int(rng.choice([17, 64]) if big else rng.choice([2, 4])), adj_x=bool(rng.random() < 0.2), adj_y=bool(rng.random() < 0.4))]
      g.classes.add('bmm_const_rhs')
    elif k == 'bmm_act':
      u = pick(lambda u: rank(u) == 3 and g.shape[u][0] == sh[0] and g.shape[u][2] == sh[2])
      if u is None:
        continue
      outs = [g.bmm(t, u, adj_y=True)]
      ins.append(u)
    elif k in UNARY_SUP or k in UNARY_UNSUP:
      outs = [getattr(g, k)(t)]
    elif k == 'rsqrt':
      p = pick(lambda u: u in g.positive)
      if p is None:
        continue
      c = g.const('half', np.full((1,), 0.5, dtype=np.float32))
      a = g.add(p, c)
      g.positive.add(a)
      outs = [g.rsqrt(a)]
      ins = [p]
      avail.append(a)
      consumed.add(a)
      made += 1
    elif k in ('add', 'sub', 'mul', 'maximum'):
      mode = rng.random()
      const_first = False
      if mode < 0.5:
        u = pick(lambda u: g.shape[u] == sh)
      elif mode < 0.8:
        cs = rng.random()
        # constant operand: a row, a full tensor, or (as "x * 0.5" / "1 - x" converts) a rank-0 / one-element scalar
        cshape = () if r == 0 else (sh[-1],) if cs < 0.4 else sh if cs < 0.75 else () if cs < 0.9 else (1,)
        u = g.const(k + '_c', np.asarray(g.w(cshape), dtype=np.float32).reshape(cshape))
        if len(cshape) == 0 or cshape == (1,):
          g.classes.add('scalar_constant')
        if rng.random() < 0.25:
          g.classes.add('constant_first_operand')
          const_first = True
      else:
        u = t  # repeated operand
        g.classes.add('repeated_operand')
      if u is None:
        continue
      kw = {}
      if k != 'maximum' and rng.random() < 0.25:
        kw['act'] = int(rng.choice([1, 3]))      # fused RELU / RELU6, as in residual blocks
        g.classes.add('fused_activation_binary')
      outs = [getattr(g, k)(u, t, **kw) if const_first else getattr(g, k)(t, u, **kw)]
      ins.append(u)
    elif k == 'reshape':
      n = int(np.prod(sh))
      new = [sh[0], n // sh[0]] if r != 2 else [1, n]
      outs = [g.reshape(t, new)]
    elif k == 'transpose':
      perm = list(rng.permutation(r))
      outs = [g.transpose(t, [int(p) for p in perm])]
    elif k == 'mean':
      if r < 2:
        continue
      mr = rng.random()
      if mr < 0.12:
        # global reduction: a rank-0 (or all-ones) runtime tensor, as a score / loss output has
        outs = [g.mean(t, list(range(r)), keep=bool(rng.random() < 0.4))]
        g.classes.add('global_mean')
      elif mr < 0.3 and r >= 3:
        outs = [g.mean(t, [1, 2], keep=bool(rng.random() < 0.5))]      # spatial mean over two axes (global average pooling)
      elif mr < 0.4:
        outs = [g.mean(t, [-1], keep=bool(rng.random() < 0.5))]        # negative axis
      else:
        ax = int(rng.integers(1, r))
        outs = [g.mean(t, [ax], keep=bool(rng.random() < 0.5))]
    elif k == 'concat':
      u = pick(lambda u: g.shape[u] == sh)
      xs = [t, u] if rng.random() < 0.8 else [t, t]
      if xs[0] == xs[1]:
        g.classes.add('repeated_operand')
      if rng.random() < 0.2:
        xs.append(pick(lambda u: g.shape[u] == sh))
      outs = [g.concat(xs, int(rng.integers(0, r)))]
      ins = xs
    elif k == 'strided_slice':
      ax = r - 1
      if sh[ax] < 2:
        continue
      begin = [0] * r
      end = list(sh)
      strides = [1] * r
      begin[ax] = int(rng.integers(0, sh[ax] - 1))
      strides[ax] = int(rng.choice([1, 2]))
      outs = [g.strided_slice(t, begin, end, strides)]
    elif k == 'split':
      axs = [a for a in range(r) if sh[a] % 2 == 0 and sh[a] >= 2]
      if not axs:
        continue
      outs = g.split(t, int(rng.choice(axs)), 2)
    if outs is None:
      continue
    if k in UNARY_UNSUP or k in ('maximum', 'maxpool', 'rnn'):
      g.classes.add('unsupported_op')
    made += 1
    consumed.update(ins)
    avail.extend(outs)
  graph_inputs = set(g.sg.inputs)
  # Every graph input must be consumed (converter normal form).
  for i in list(g.sg.inputs):
    if i not in consumed:
      if g.in_meta[i][0] == 'ids':
        continue
      y = g.tanh(i) if rng.random() < 0.5 else g.relu(i)
      consumed.add(i)
      avail.append(y)
  outputs = [t for t in avail if t not in consumed and t not in graph_inputs]
  extra = [t for t in avail if t in consumed and t not in graph_inputs
           and rng.random() < export_consumed_p]
  if extra:
    g.classes.add('output_also_consumed')
  outputs += extra
  if not outputs:
    outputs = [t for t in avail if t not in graph_inputs][-1:]
  # multi-consumer census
  cnt = {}
  for op in g.sg.operators:
    for i in set(int(j) for j in op.inputs):
      cnt[i] = cnt.get(i, 0) + 1
  if any(v >= 2 for t, v in cnt.items()
         if t >= 0 and g.b.m.buffers[g.sg.tensors[t].buffer].data is None):
    g.classes.add('multi_consumer')
  if rng.random() < dup_output_p:
    # the same value returned under two names: the converter lists the tensor twice in subgraph.outputs
    outputs.append(outputs[int(rng.integers(len(outputs)))])
    g.classes.add('duplicate_output')
  return outputs


@dataclasses.dataclass
class ModelSpec:
  """A generated model plus what the harness needs to drive it."""
  content: bytes
  signatures: list  # [{'key', 'subgraph', 'inputs': [(arg, shape, 'float'|'ids', vocab)]}]
  classes: frozenset
  label: str = ''


def _spec(b, graphs, label=''):
  if not hasattr(b, 'empty_quant') and graphs:
    b.empty_quant = bool(graphs[0].rng.random() < 0.5)
  sigs = []
  classes = set()
  for s, g in zip(b.m.signatureDefs, graphs):
    ins = []
    for tm in s.inputs:
      kind, vocab = g.in_meta[tm.tensorIndex]
      ins.append((tm.name.decode(), tuple(g.shape[tm.tensorIndex]), kind, vocab))
    sigs.append({'key': s.signatureKey.decode(), 'subgraph': s.subgraphIndex, 'inputs': ins})
    classes |= g.classes
  return ModelSpec(b.build(), sigs, frozenset(classes), label)


def rand_model(rng, n_sub=1, n_ops=None, sep='_', **kw):
  b = B()
  graphs = []
  for i in range(n_sub):
    g = G(b, f'sub{i}', f's{i}/' if n_sub > 1 else 'm/', rng, sep=sep)
    outs = rand_graph(g, rng, n_ops=n_ops or int(rng.integers(1, 9)), **dict(kw, allow_stateful=(n_sub == 1 and kw.get('allow_stateful', True))))
    g.finish(outs, 'serving_default' if n_sub == 1 else f'sig{i}')
    graphs.append(g)
  spec = _spec(b, graphs, 'random')
  if n_sub > 1 and rng.random() < 0.35:
    # SignatureDef order is not subgraph order (and tensor / buffer numbering is arbitrary): position is not identity
    spec = shuffle_indices(spec, rng, tensors=bool(rng.random() < 0.5), buffers=bool(rng.random() < 0.5), signatures=True)
  return spec


# ---------------------------------------------------------------- directed templates

def _single(rng, fn, label, sep='_', huge_w_p=0.0):
  b = B()
  g = G(b, 'main', 'm/', rng, sep=sep)
  g.huge_w_p = huge_w_p
  outs = fn(g, rng)
  g.finish(outs, 'serving_default')
  sp = _spec(b, [g], label)
  return sp


def t_output_also_consumed(rng):
  def f(g, rng):
    x = g.inp((2, 8))
    y = g.fc(x, 4)
    z = g.tanh(y) if rng.random() < 0.5 else g.fc(y, 3)
    g.classes.add('output_also_consumed')
    return [y, z]
  return _single(rng, f, 'output_also_consumed')


def t_duplicate_output(rng):
  """One value returned under two (or three) output names, optionally also consumed / next to another output."""
  def f(g, rng):
    x = g.inp((2, 8))
    y = g.fc(x, 4)
    k = int(rng.integers(4))
    g.classes.add('duplicate_output')
    if k == 0:
      return [y, y]
    if k == 1:
      return [y, g.tanh(y), y]
    if k == 2:
      z = g.fc(y, 3)
      return [z, y, z]
    return [y, y, y]
  return _single(rng, f, 'duplicate_output')


def t_passthrough(rng):
  """A graph input that is also a graph output (returned as it is), next to a value computed from it."""
  def f(g, rng):
    x = g.inp((2, 8))
    y = g.fc(x, 4) if rng.random() < 0.7 else g.tanh(x)
    g.classes.add('input_is_also_output')
    return [y, x] if rng.random() < 0.5 else [x, y]
  return _single(rng, f, 'passthrough')


def t_stateful_two_signatures(rng):
  """Two signatures, a stateful operator (variable tensor) in the second one."""
  b = B()
  graphs = []
  for i in range(2):
    g = G(b, f'sub{i}', f's{i}/', rng)
    x = g.inp((2, 6))
    y = g.fc(x, 4)
    if i == 1:
      y = g.fc(g.rnn(y, 3), 3)
    g.finish([y], f'sig{i}')
    graphs.append(g)
  return _spec(b, graphs, 'stateful_two_signatures')


def t_huge_activation(rng):
  """Runtime tensors of 2^21 elements (a [1, 1024, 2048] hidden state): anything that samples, chunks or indexes large tensors."""
  def f(g, rng):
    x = g.inp((1, 1024, 2048))
    y = g.mul(x, g.const('half', np.asarray(0.5, dtype=np.float32).reshape(())))
    z = g.add(y, g.const('shift', g.w((2048,), 0.1)))
    g.classes.add('huge_activation')
    return [z]
  return _single(rng, f, 'huge_activation')


def t_sequence(rng):
  """[1, seq, features] -> FC (keep_num_dims) -> TANH -> FC: every operator works for any sequence length, so the interpreter can be fed
  samples of DIFFERENT shapes (the signature runner resizes the input)."""
  def f(g, rng):
    x = g.inp((1, 2, 8))
    g.sg.tensors[x].shapeSignature = [1, -1, 8]
    y = g.fc(x, 6, keep=True)
    z = g.fc(g.tanh(y), 4, keep=True, bias=bool(rng.random() < 0.5))
    g.classes.add('dynamic_sequence_length')
    return [z]
  return _single(rng, f, 'sequence')


def t_very_deep(rng):
  """100-140 x [FULLY_CONNECTED -> TANH]: more than 255 operators once QUANTIZE / DEQUANTIZE operators are inserted (operator ids, position
  bookkeeping and tables that silently assume a small graph)."""
  def f(g, rng):
    x = g.inp((1, 8))
    for _ in range(int(rng.integers(100, 141))):
      x = g.tanh(g.fc(x, 8, bias=bool(rng.random() < 0.3)))
    g.classes.add('more_than_255_operators')
    return [x]
  return _single(rng, f, 'very_deep')


def t_while(rng):
  """Control flow as the converter emits it for tf.while_loop: the signature's subgraph holds a WHILE operator whose condition and body
  are further subgraphs WITHOUT a signature; the body contains a quantizable operator."""
  b = B()
  g = G(b, 'main', 'm/', rng)
  x = g.inp((1, 4))
  i0 = g.const('i0', np.asarray(0, dtype=np.int32).reshape(()))
  io = b.act(g.sg, 'm/i_out', (), TT.INT32)
  y = g.act('while_out', (1, 4))
  o = S.WhileOptionsT()
  o.condSubgraphIndex, o.bodySubgraphIndex = 1, 2
  g.op(BO.WHILE, [i0, x], [io, y], o, S.BuiltinOptions.WhileOptions)
  z = g.fc(y, 3) if rng.random() < 0.7 else g.tanh(y)
  g.classes.update(('control_flow', 'unsupported_op'))
  g.finish([z], 'serving_default')
  c = G(b, 'cond', 'c/', rng)
  ci = b.act(c.sg, 'c/i', (), TT.INT32)
  cx = c.act('x', (1, 4))
  c.sg.inputs = [ci, cx]
  lim = c.const('limit', np.asarray(int(rng.integers(1, 4)), dtype=np.int32).reshape(()))
  cb = b.act(c.sg, 'c/less', (), TT.BOOL)
  c.op(BO.LESS, [ci, lim], [cb], S.LessOptionsT(), S.BuiltinOptions.LessOptions)
  c.sg.outputs = [cb]
  d = G(b, 'body', 'b/', rng)
  di = b.act(d.sg, 'b/i', (), TT.INT32)
  dx = d.act('x', (1, 4))
  d.sg.inputs = [di, dx]
  one = d.const('one', np.asarray(1, dtype=np.int32).reshape(()))
  dn = b.act(d.sg, 'b/i_next', (), TT.INT32)
  d.op(BO.ADD, [di, one], [dn], S.AddOptionsT(), S.BuiltinOptions.AddOptions)
  dy = d.tanh(d.fc(dx, 4))
  d.sg.outputs = [dn, dy]
  return _spec(b, [g], 'while')


def t_tied_bias(rng):
  """One non-zero BIAS constant read by two FULLY_CONNECTED operators whose inputs have different ranges (an unrolled recurrent cell);
  the bias is one tensor or two tensors on one buffer."""
  def f(g, rng):
    x = g.inp((2, 6))
    arr = g.w((6,), 0.5) + np.float32(0.3)
    if rng.random() < 0.5:
      b1 = b2 = g.const('cell_bias', arr)
    else:
      buf = g.b.new_buffer(arr)
      b1 = g.const('cell_bias', arr, buffer=buf)
      b2 = g.const('cell_bias', arr, buffer=buf)
    w = g.const('cell_w', g.w((6, 6), 0.5)) if rng.random() < 0.5 else None
    h1 = g.tanh(g.fc(x, 6, b=b1, w=w))
    h2 = g.tanh(g.fc(g.mul(h1, g.const('gain', np.asarray(3.0, dtype=np.float32).reshape(()))), 6, b=b2, w=w))
    g.classes.add('tied_bias')
    return [h2] if rng.random() < 0.5 else [h1, h2]
  return _single(rng, f, 'tied_bias')


def t_producer_zero_float_out(rng):
  """Operator 0 is quantizable, its output feeds an op outside the table and a supported op."""
  def f(g, rng):
    x = g.inp((1, 8))
    y = g.fc(x, 4)
    a = g.relu(y)
    c = g.fc(y, 3)
    d = g.add(g.fc(a, 3), c)
    g.classes.update(('producer_zero', 'multi_consumer', 'unsupported_op'))
    return [d]
  return _single(rng, f, 'producer_zero')


def t_repeated_operand(rng):
  def f(g, rng):
    x = g.inp((2, 6))
    y = g.fc(x, 4)
    k = rng.integers(3)
    if k == 0:
      z = g.mul(y, y)
    elif k == 1:
      z = g.concat([y, y], 1)
    else:
      z = g.add(y, y)
    w = g.fc(z, 3)
    g.classes.add('repeated_operand')
    return [w]
  return _single(rng, f, 'repeated_operand')


def t_unsupported_between(rng):
  def f(g, rng):
    x = g.inp((1, 5, 5, 2))
    y = g.conv(x, 3)
    y = getattr(g, str(rng.choice(['relu', 'abs', 'neg', 'leaky_relu', 'maxpool'])))(y)
    y = g.conv(y, 2, k=1)
    g.classes.add('unsupported_op')
    return [y]
  return _single(rng, f, 'unsupported_between')


def t_multi_group(rng):
  """One tensor read by a quantizable op, a same-scale op, a concat and a non-table op."""
  def f(g, rng):
    x = g.inp((2, 8))
    y = g.fc(x, 4)
    a = g.reshape(y, [1, 8])
    b_ = g.relu(y)
    c = g.concat([y, g.tanh(y)], 1)
    d = g.fc(a, 2)
    e = g.fc(c, 2)
    g.classes.update(('multi_consumer', 'unsupported_op'))
    return [d, e, b_]
  return _single(rng, f, 'multi_group')


def t_shared_const_tensor(rng, k=2):
  """One constant tensor consumed by k ops."""
  def f(g, rng):
    x = g.inp((2, 6))
    w = g.const('shared_w', g.w((4, 6), 0.5))
    outs = []
    for i in range(k):
      xi = g.tanh(x) if i else x
      outs.append(g.fc(xi, 4, w=w, bias=bool(rng.random() < 0.5)))
    g.classes.add('shared_const_tensor')
    return outs
  return _single(rng, f, 'shared_const_tensor')


def t_shared_buffer(rng, k=2):
  """k constant tensors on one buffer within a subgraph."""
  def f(g, rng):
    x = g.inp((2, 6))
    arr = g.w((4, 6), 0.5)
    buf = g.b.new_buffer(arr)
    outs = []
    for i in range(k):
      w = g.const('tied_w', arr, buffer=buf)
      xi = g.gelu(x) if i else x
      outs.append(g.fc(xi, 4, w=w, bias=False))
    g.classes.add('shared_buffer')
    return outs
  return _single(rng, f, 'shared_buffer')


def t_shared_buffer_across(rng, n_sub=2):
  """The same weight buffer referenced from several subgraphs/signatures."""
  b = B()
  graphs = []
  arr = None
  buf = None
  for i in range(n_sub):
    g = G(b, f'sub{i}', f's{i}/', rng)
    x = g.inp((2, 6))
    if arr is None:
      arr = g.w((4, 6), 0.5)
      buf = b.new_buffer(arr)
    w = g.const('tied_w', arr, buffer=buf)
    if i and rng.random() < 0.5:
      x = g.tanh(x)            # the consuming operator sits at another position than in subgraph 0
    y = g.fc(x, 4, w=w, bias=bool(rng.random() < 0.5))
    if rng.random() < 0.5:
      y = g.tanh(y)
    g.classes.add('shared_buffer_across')
    g.finish([y], f'sig{i}')
    graphs.append(g)
  return _spec(b, graphs, 'shared_buffer_across')


def t_chain(rng):
  """Same-scale chain several hops long ending in a fixed-range op."""
  def f(g, rng):
    x = g.inp((1, 4, 4, 2))
    y = g.conv(x, 2)
    y = g.avgpool(y)
    y = g.reshape(y, [1, 8])
    y = g.transpose(y, [1, 0])
    y = g.transpose(y, [1, 0])
    a, b_ = g.split(y, 1, 2)
    z = g.concat([g.softmax(a), g.logistic(b_)], 1)
    return [g.fc(z, 3)]
  return _single(rng, f, 'chain')


def t_weight_chain(rng):
  """4-8 weight-carrying operators back to back (optionally with a float op in between): many insertions in one subgraph."""
  def f(g, rng):
    k = int(rng.integers(4, 9))
    if rng.random() < 0.6:
      y = g.inp((2, 6))
      for i in range(k):
        y = g.fc(y, int(rng.choice([4, 6])), bias=bool(rng.random() < 0.6))
        if rng.random() < 0.25:
          y = g.relu(y) if rng.random() < 0.5 else g.tanh(y)
    else:
      y = g.inp((1, 5, 5, 2))
      for i in range(k):
        y = g.conv(y, int(rng.choice([2, 3])), k=int(rng.choice([1, 3])))
        if rng.random() < 0.25:
          y = g.relu(y)
    return [y]
  return _single(rng, f, 'weight_chain')


def t_all_unsupported(rng):
  def f(g, rng):
    x = g.inp((2, 4))
    return [g.neg(g.relu(x))]
  sp = _single(rng, f, 'all_unsupported')
  return sp


TEMPLATES = [t_output_also_consumed, t_producer_zero_float_out, t_repeated_operand,
             t_unsupported_between, t_multi_group, t_shared_const_tensor, t_shared_buffer,
             t_chain, t_weight_chain, t_duplicate_output, t_passthrough, t_very_deep, t_while, t_tied_bias]


def model_for_case(rng, multi_sub_p=0.0, template_p=0.15, shuffle_p=0.15, alias_p=0.25, **kw):
  """Default mixture used by the graph-level properties."""
  r = rng.random()
  if r < template_p:
    spec = TEMPLATES[int(rng.integers(len(TEMPLATES)))](rng)
  else:
    n_sub = 1
    if rng.random() < multi_sub_p:
      n_sub = int(rng.integers(2, 4))
    spec = rand_model(rng, n_sub=n_sub, **kw)
  if shuffle_p and rng.random() < shuffle_p:
    spec = shuffle_indices(spec, rng, dangling=bool(rng.random() < 0.3),
                           shape_sigs=[None, None, 'static', 'dynamic'][int(rng.integers(4))], opcodes=bool(rng.random() < 0.3),
                           alias_signature=bool(rng.random() < alias_p), empty_quant=bool(rng.random() < 0.5),
                           name_collision=bool(rng.random() < 0.25))
  return spec


# ---------------------------------------------------------------- surgery

def read(content):
  return flatbuffer_utils.read_model_from_bytearray(bytearray(content))


def extract_subgraph(content, si):
  """Stand-alone model made of subgraph si of `content` (buffers/opcodes kept as is)."""
  m = read(content)
  sg = m.subgraphs[si]
  m.subgraphs = [sg]
  sigs = []
  for s in m.signatureDefs or []:
    if s.subgraphIndex == si:
      s.subgraphIndex = 0
      sigs.append(s)
  m.signatureDefs = sigs
  return bytes(flatbuffer_utils.convert_object_to_bytearray(m))


def single_signature_spec(spec, si):
  s = dict(spec.signatures[si])
  s['subgraph'] = 0
  return ModelSpec(extract_subgraph(spec.content, spec.signatures[si]['subgraph']), [s],
                   spec.classes, spec.label + f'/sub{si}')


# ---------------------------------------------------------------- single-operator catalogue (C05, C13, C06 replay)

SINGLE_OPS = {
    'FULLY_CONNECTED': ['fc', 'fc_nobias', 'fc_keep'],
    'CONV_2D': ['conv', 'conv_1x1'],
    'DEPTHWISE_CONV_2D': ['dwconv', 'dwconv_mult2'],
    'CONV_2D_TRANSPOSE': ['tconv', 'tconv_nobias'],
    'BATCH_MATMUL': ['bmm_const', 'bmm_const_adj', 'bmm_act', 'bmm_rank2', 'bmm_rank2_adj', 'bmm_const_adjx'],
    # ('bmm_const_lhs', 'bmm_const_lhs_adjx' -- the constant as FIRST operand -- exist as variants but are kept out of the shared catalogue:
    #  the library quantizes such a constant like a weight and the runtime refuses the result, KF-BMM-CONST-LHS-QUANTIZED-AS-WEIGHT)
    'EMBEDDING_LOOKUP': ['emb'],
    'AVERAGE_POOL_2D': ['avgpool', 'avgpool_relu'], 'RESHAPE': ['reshape'], 'SOFTMAX': ['softmax'], 'TANH': ['tanh'],
    'LOGISTIC': ['logistic'], 'GELU': ['gelu'], 'RSQRT': ['rsqrt'], 'TRANSPOSE': ['transpose'],
    'ADD': ['add', 'add_const', 'add_scalar'], 'SUB': ['sub', 'sub_const', 'sub_scalar', 'sub_constfirst'],
    'MUL': ['mul', 'mul_const', 'mul_scalar', 'mul_constfirst'],
    'MEAN': ['mean'], 'CONCATENATION': ['concat'], 'STRIDED_SLICE': ['strided_slice'], 'SPLIT': ['split'],
}


def single_op_model(rng, variant, odd=False, wide=False, huge_w_p=0.0):
  """One operator of the coverage table (plus what it needs to be well-formed).  wide: feature / channel dimensions of realistic
  size (x16 and off by one) for the variants whose shapes allow it."""
  o0 = (lambda a, b: int(rng.choice([a, b]))) if odd else (lambda a, b: a)
  WIDE_OK = ('fc', 'fc_nobias', 'fc_keep', 'conv_1x1', 'bmm_const', 'bmm_const_adj', 'bmm_rank2', 'bmm_rank2_adj', 'emb',
             'add_const', 'sub_const', 'mul_const', 'softmax', 'tanh', 'logistic', 'gelu')
  if wide and variant in WIDE_OK:
    o = lambda a, b: o0(a, b) * 16 + int(rng.integers(0, 2))
  else:
    o = o0

  def f(g, rng):
    v = variant
    if v in ('fc', 'fc_nobias'):
      x = g.inp((o(2, 1), o(6, 5)))
      return [g.fc(x, o(4, 3), bias=(v == 'fc'))]
    if v == 'fc_keep':
      x = g.inp((1, o(2, 3), o(4, 5)))
      return [g.fc(x, o(4, 3), keep=True)]
    if v == 'conv':
      x = g.inp((1, 5, o(5, 4), o(2, 3)))
      return [g.conv(x, o(2, 3), k=3, same=bool(rng.random() < 0.5))]
    if v == 'conv_1x1':
      x = g.inp((1, 4, 4, o(2, 3)))
      return [g.conv(x, o(3, 1), k=1)]
    if v == 'dwconv':
      x = g.inp((1, 5, 5, o(2, 3)))
      return [g.dwconv(x, 1, k=3)]
    if v == 'dwconv_mult2':
      x = g.inp((1, 4, 4, o(2, 3)))
      return [g.dwconv(x, 2, k=o(3, 1))]
    if v in ('tconv', 'tconv_nobias'):
      x = g.inp((1, 3, 3, o(2, 3)))
      return [g.tconv(x, o(2, 1), bias=(v == 'tconv'))]
    if v in ('bmm_const', 'bmm_const_adj'):
      x = g.inp((o(2, 1), 3, o(4, 5)))
      return [g.bmm(x, n_out=o(4, 3), adj_y=(v == 'bmm_const_adj'))]
    if v in ('bmm_rank2', 'bmm_rank2_adj'):
      x = g.inp((3, o(4, 5)))
      return [g.bmm(x, n_out=o(4, 3), adj_y=(v == 'bmm_rank2_adj'))]
    if v in ('bmm_const_lhs', 'bmm_const_lhs_adjx'):
      y = g.inp((o(2, 1), o(4, 5), 3))
      return [g.bmm_const_lhs(y, n_rows=o(4, 3), adj_x=(v == 'bmm_const_lhs_adjx'), adj_y=bool(rng.random() < 0.3))]
    if v == 'bmm_const_adjx':
      x = g.inp((o(2, 1), o(4, 5), 3))
      return [g.bmm(x, n_out=o(4, 3), adj_x=True, adj_y=bool(rng.random() < 0.5))]
    if v == 'bmm_act':
      x = g.inp((2, 3, 4))
      y = g.inp((2, 5, 4))
      return [g.bmm(x, y, adj_y=True)]
    if v == 'emb':
      vocab = o(6, 7)
      ids = g.inp((3,), TT.INT32, vocab=vocab)
      return [g.emb(ids, vocab, o(4, 5))]
    if v == 'avgpool':
      return [g.avgpool(g.inp((1, 4, 4, o(2, 3))))]
    if v == 'avgpool_relu':
      return [g.avgpool(g.inp((1, 4, 4, o(2, 3))), act=int(rng.choice([1, 3])))]
    if v == 'reshape':
      return [g.reshape(g.inp((2, 6)), [3, 4])]
    if v in ('softmax', 'tanh', 'logistic', 'gelu'):
      return [getattr(g, v)(g.inp((2, o(6, 5))))]
    if v == 'rsqrt':
      x = g.inp((2, 4))
      return [g.rsqrt(x)]
    if v == 'transpose':
      return [g.transpose(g.inp((2, 3, 4)), [2, 0, 1])]
    if v in ('add', 'sub', 'mul'):
      x = g.inp((2, 6))
      y = g.inp((2, 6))
      return [getattr(g, v)(x, y)]
    if v in ('add_const', 'sub_const', 'mul_const'):
      x = g.inp((2, o(6, 5)))
      c = g.const('c', g.w((g.shape[x][-1],) if rng.random() < 0.5 else g.shape[x]))
      return [getattr(g, v.split('_')[0])(x, c)]
    if v in ('add_scalar', 'sub_scalar', 'mul_scalar'):
      x = g.inp((2, o(6, 5)))
      cshape = () if rng.random() < 0.6 else (1,)
      c = g.const('c', np.asarray(g.w(cshape), dtype=np.float32).reshape(cshape))
      return [getattr(g, v.split('_')[0])(x, c)]
    if v in ('sub_constfirst', 'mul_constfirst'):
      x = g.inp((2, o(6, 5)))
      cshape = [(), (g.shape[x][-1],), g.shape[x]][int(rng.integers(3))]
      c = g.const('c', np.asarray(g.w(cshape), dtype=np.float32).reshape(cshape))
      return [getattr(g, v.split('_')[0])(c, x)]
    if v == 'mean':
      return [g.mean(g.inp((2, 3, 4)), [1], keep=bool(rng.random() < 0.5))]
    if v == 'concat':
      x = g.inp((2, 4))
      y = g.inp((2, 4))
      return [g.concat([x, y], 1)]
    if v == 'strided_slice':
      return [g.strided_slice(g.inp((2, 6)), [0, 1], [2, 6], [1, 2])]
    if v == 'split':
      return g.split(g.inp((2, 6)), 1, 2)
    raise ValueError(v)
  sp = _single(rng, f, 'single:' + variant, huge_w_p=huge_w_p)
  if variant == 'rsqrt':
    sp.signatures[0]['positive_inputs'] = True
  return sp


def t_fanout(rng, k=None):
  """One float tensor read by k (3-5) operators of mixed types; returns (spec, [(selector, output name)])."""
  k = k or int(rng.integers(3, 6))
  b = B()
  g = G(b, 'main', 'm/', rng)
  x = g.inp((2, 6))
  y = g.fc(x, 6) if rng.random() < 0.6 else x
  consumers = []
  outs = []
  for i in range(k):
    kind = str(rng.choice(['fc', 'fc', 'tanh', 'gelu', 'mul_const', 'softmax', 'reshape', 'relu']))
    if kind == 'fc':
      o, sel = g.fc(y, int(rng.choice([3, 4])), bias=bool(rng.random() < 0.5)), 'FULLY_CONNECTED'
    elif kind == 'tanh':
      o, sel = g.tanh(y), 'TANH'
    elif kind == 'gelu':
      o, sel = g.gelu(y), 'GELU'
    elif kind == 'softmax':
      o, sel = g.softmax(y), 'SOFTMAX'
    elif kind == 'mul_const':
      o, sel = g.mul(y, g.const('c', g.w((6,)))), 'MUL'
    elif kind == 'reshape':
      o, sel = g.reshape(y, [3, 4]), 'RESHAPE'
    else:
      o, sel = g.relu(y), None
    outs.append(o)
    if sel is not None:
      consumers.append((sel, g.sg.tensors[o].name.decode()))
  if y != x and rng.random() < 0.4:
    outs.append(y)
    g.classes.add('output_also_consumed')
  g.classes.update(('multi_consumer', 'fanout'))
  g.finish(outs, 'serving_default')
  return _spec(b, [g], 'fanout'), consumers


# ---------------------------------------------------------------- semantics-preserving surgery (index hygiene)

def shuffle_indices(spec, rng, tensors=True, buffers=True, signatures=True, dangling=False, shape_sigs=None, opcodes=False,
                    alias_signature=False, empty_quant=False, name_collision=False):
  """Returns a spec describing the SAME model with tensor indices permuted inside every subgraph, data buffers
  permuted (buffer 0 stays the empty sentinel), the signature list reordered and optionally an unused constant
  tensor added.  Nothing about the computation changes; only code that confuses an index with an identity notices."""
  m = read(spec.content)
  if tensors:
    for si, sg in enumerate(m.subgraphs):
      n = len(sg.tensors)
      perm = [int(p) for p in rng.permutation(n)]       # old index -> new index
      new = [None] * n
      for old, t in enumerate(sg.tensors):
        new[perm[old]] = t
      sg.tensors = new
      mp = lambda i: -1 if int(i) < 0 else perm[int(i)]
      for op in sg.operators:
        op.inputs = [mp(i) for i in op.inputs]
        op.outputs = [mp(i) for i in op.outputs]
      sg.inputs = [mp(i) for i in sg.inputs]
      sg.outputs = [mp(i) for i in sg.outputs]
      for s in m.signatureDefs or []:
        if s.subgraphIndex == si:
          for tm in list(s.inputs) + list(s.outputs):
            tm.tensorIndex = perm[int(tm.tensorIndex)]
  if buffers and len(m.buffers) > 2:
    nb = len(m.buffers)
    bperm = [0] + [int(p) + 1 for p in rng.permutation(nb - 1)]
    newb = [None] * nb
    for old, b in enumerate(m.buffers):
      newb[bperm[old]] = b
    m.buffers = newb
    for sg in m.subgraphs:
      for t in sg.tensors:
        t.buffer = bperm[int(t.buffer)]
  if empty_quant:
    # the converter writes an EMPTY QuantizationParameters table on every float tensor (not a missing one)
    for sg in m.subgraphs:
      for t in sg.tensors:
        if t.quantization is None:
          t.quantization = S.QuantizationParametersT()
  if name_collision:
    # a tensor already called like the tensor a QUANTIZE / DEQUANTIZE would be inserted as (a model that went through such a tool before)
    for sg in m.subgraphs:
      rt = [t for t in sg.tensors if m.buffers[int(t.buffer)].data is None or len(m.buffers[int(t.buffer)].data) == 0]
      names = {t.name for t in sg.tensors}
      if len(rt) >= 2:
        i, j = [int(v) for v in rng.choice(len(rt), size=2, replace=False)]
        new = rt[i].name + (b'_dequant' if rng.random() < 0.5 else b'_quantized')
        if new not in names:
          rt[j].name = new
  if opcodes and m.operatorCodes:
    # the same builtin code listed twice (the converter keys operator_codes by (code, version)): some operators use the copy
    k = int(rng.integers(len(m.operatorCodes)))
    import copy as _copy
    dup = _copy.deepcopy(m.operatorCodes[k])
    dup.version = int(dup.version or 1) + 1
    m.operatorCodes.append(dup)
    for sg in m.subgraphs:
      for op in sg.operators:
        if op.opcodeIndex == k and rng.random() < 0.5:
          op.opcodeIndex = len(m.operatorCodes) - 1
  if shape_sigs:
    # shape signatures as the converter writes them for models with a dynamic batch ('dynamic') or spelled out
    # although static ('static'); metadata only -- the default shapes are unchanged
    for sg in m.subgraphs:
      for t in sg.tensors:
        has_data = m.buffers[int(t.buffer)].data is not None and len(m.buffers[int(t.buffer)].data) > 0
        if has_data or t.shape is None or len(t.shape) == 0:
          continue
        sig = [int(d) for d in t.shape]
        if shape_sigs == 'dynamic' and len(sig) >= 2:
          sig[0] = -1
        t.shapeSignature = sig
  if alias_signature and m.signatureDefs:
    # a second SignatureDef for an existing subgraph (another key and other argument names for the same tensors)
    k = int(rng.integers(len(m.signatureDefs)))
    src_sig = m.signatureDefs[k]
    al = S.SignatureDefT()
    al.signatureKey = src_sig.signatureKey + b'_alias'
    al.subgraphIndex = src_sig.subgraphIndex
    al.inputs, al.outputs = [], []
    for lst, dst, pre in ((src_sig.inputs, al.inputs, b'alias_'), (src_sig.outputs, al.outputs, b'alias_')):
      for tm in lst:
        t2 = S.TensorMapT()
        t2.name = pre + tm.name
        t2.tensorIndex = tm.tensorIndex
        dst.append(t2)
    m.signatureDefs.append(al)
    alias_of = (src_sig.signatureKey.decode(), al.signatureKey.decode())
  else:
    alias_of = None
  if dangling:
    sg = m.subgraphs[int(rng.integers(len(m.subgraphs)))]
    b = S.BufferT()
    b.data = np.frombuffer(np.arange(6, dtype=np.float32).tobytes(), dtype=np.uint8)
    m.buffers.append(b)
    t = S.TensorT()
    t.name = (sg.tensors[0].name.split(b'/')[0] + b'/unused_const_%d' % int(rng.integers(1 << 20)))
    t.shape = [2, 3]
    t.type = TT.FLOAT32
    t.buffer = len(m.buffers) - 1
    sg.tensors.append(t)
  sigs = list(spec.signatures)
  if alias_of:
    base = next(s_ for s_ in sigs if s_['key'] == alias_of[0])
    sigs.append(dict(base, key=alias_of[1], inputs=[('alias_' + a, sh, kd, vc) for a, sh, kd, vc in base['inputs']]))
  if signatures and m.signatureDefs and len(m.signatureDefs) > 1:
    order = [int(p) for p in rng.permutation(len(m.signatureDefs))]
    m.signatureDefs = [m.signatureDefs[i] for i in order]
    by_key = {s['key']: s for s in sigs}
    sigs = [by_key[s.signatureKey.decode()] for s in m.signatureDefs]
  return ModelSpec(bytes(flatbuffer_utils.convert_object_to_bytearray(m)), sigs,
                   spec.classes | {'shuffled_indices'} | ({'alias_signature'} if alias_of else set()),
                   spec.label + '+shuffled')


# ---------------------------------------------------------------- sensitivity probe (C07)

def noise_injected(content, steps, weight_bits, rng, gamma=1.0, si=0):
  """The float model `content` with additive noise of quantization-step size on every runtime float tensor that an
  operator reads and on every float constant: t' = t + n_t (a constant ADD inserted behind the producer / the graph
  input, consumers rewired, graph outputs untouched), n_t ~ U(-gamma/2, gamma/2) * steps[name]; constants get
  U(-1/2, 1/2) of their own symmetric step at `weight_bits`.  Running it in the FLOAT interpreter shows how far the
  float network itself carries perturbations of the size quantization must introduce -- its conditioning -- without
  consulting the quantizer."""
  m = read(content)
  sg = m.subgraphs[si]
  add_idx = None
  for i, c in enumerate(m.operatorCodes):
    if c.builtinCode == BO.ADD:
      add_idx = i
  if add_idx is None:
    c = S.OperatorCodeT()
    c.builtinCode = BO.ADD
    c.deprecatedBuiltinCode = BO.ADD
    c.version = 1
    m.operatorCodes.append(c)
    add_idx = len(m.operatorCodes) - 1

  def has_data(t):
    d = m.buffers[int(t.buffer)].data
    return d is not None and len(d) > 0

  # constants: perturb in place (every float constant of rank >= 1 with more than one element, biases excluded by size heuristic is not
  # needed -- a bias perturbed by half a weight step is far below its own effect)
  done = set()
  for t in sg.tensors:
    if t.type == TT.FLOAT32 and has_data(t) and int(t.buffer) not in done:
      done.add(int(t.buffer))
      a = np.frombuffer(bytes(m.buffers[int(t.buffer)].data), dtype=np.float32).copy()
      if a.size == 0:
        continue
      stepw = float(np.max(np.abs(a))) / (2 ** (weight_bits - 1) - 1)
      a = a + (rng.random(a.shape).astype(np.float32) - 0.5) * np.float32(stepw)
      m.buffers[int(t.buffer)].data = np.frombuffer(a.astype(np.float32).tobytes(), dtype=np.uint8)
  consumed = set()
  for op in sg.operators:
    consumed.update(int(i) for i in op.inputs if int(i) >= 0)
  remap = {}
  new_ops = []

  def inject(ti):
    t = sg.tensors[ti]
    name = t.name.decode()
    if t.type != TT.FLOAT32 or has_data(t) or ti not in consumed or name not in steps or not steps[name] > 0:
      return
    shape = [int(d) for d in (t.shape if t.shape is not None else [])]
    n = ((rng.random(shape) - 0.5) * gamma * steps[name]).astype(np.float32)
    b = S.BufferT()
    b.data = np.frombuffer(n.tobytes(), dtype=np.uint8)
    m.buffers.append(b)
    nt = S.TensorT()
    nt.name = t.name + b'__noise'
    nt.shape = shape
    nt.type = TT.FLOAT32
    nt.buffer = len(m.buffers) - 1
    sg.tensors.append(nt)
    m.buffers.append(S.BufferT())
    yt = S.TensorT()
    yt.name = t.name + b'__noisy'
    yt.shape = shape
    yt.type = TT.FLOAT32
    yt.buffer = len(m.buffers) - 1
    sg.tensors.append(yt)
    o = S.OperatorT()
    o.opcodeIndex = add_idx
    o.inputs = [ti, len(sg.tensors) - 2]
    o.outputs = [len(sg.tensors) - 1]
    o.builtinOptions = S.AddOptionsT()
    o.builtinOptionsType = S.BuiltinOptions.AddOptions
    new_ops.append(o)
    remap[ti] = len(sg.tensors) - 1

  for ti in sg.inputs:
    inject(int(ti))
  for op in sg.operators:
    op.inputs = [remap.get(int(i), int(i)) if int(i) >= 0 else -1 for i in op.inputs]
    new_ops.append(op)
    for o in op.outputs:
      inject(int(o))
  sg.operators = new_ops
  return bytes(flatbuffer_utils.convert_object_to_bytearray(m))


def externalize(content):
  """The same model in EXTERNAL-BUFFER form, as float models beyond 2 GB arrive: every non-empty constant is moved behind the
  flatbuffer (16-byte aligned) and its Buffer entry carries (offset, size) instead of data.  Own two-pass packer, independent of the
  library's writer."""
  m = read(content)
  blobs = []
  for b in m.buffers:
    if b.data is not None and len(b.data) > 0:
      raw = bytes(np.asarray(b.data, dtype=np.uint8).tobytes())
      blobs.append((b, raw))
      b.data = None
      b.offset = 1 << 40          # placeholder: scalar fields have a fixed width, the table layout does not depend on the value
      b.size = len(raw)
  if not blobs:
    return content
  size1 = len(flatbuffer_utils.convert_object_to_bytearray(m))
  pos = size1 + (-size1) % 16
  for b, raw in blobs:
    b.offset = pos
    pos += len(raw) + (-len(raw)) % 16
  fb = bytes(flatbuffer_utils.convert_object_to_bytearray(m))
  assert len(fb) == size1
  out = bytearray(fb)
  for b, raw in blobs:
    out += b'\0' * (b.offset - len(out))
    out += raw
  return bytes(out)
