"""Recipes: shipped files, a config catalogue, random rule sequences, regexes.

Recipes are always built through the public API
(Quantizer.update_quantization_recipe / load_quantization_recipe); a rule is
"accepted" iff the API raised nothing.  skip_checks and BLOCKWISE are never
generated (documented as outside runtime support).
"""
import json
import os
import re
import numpy as np
from ai_edge_quantizer import qtyping

OP = qtyping.TFLOperationName
T = qtyping.TensorQuantizationConfig
C = qtyping.OpQuantizationConfig
GR = qtyping.QuantGranularity
CP = qtyping.ComputePrecision
DT = qtyping.TensorDataType
MINMAX = 'min_max_uniform_quantize'
FLOATCAST = 'float_casting'
NOQ = 'no_quantize'

REPO = os.environ.get('AEQ_REPO', '/repo')
RECIPE_DIR = os.path.join(REPO, 'ai_edge_quantizer', 'recipes')
SHIPPED = ('default_a8w8_recipe.json', 'default_a16w8_recipe.json',
           'default_af32w8float_recipe.json', 'default_af32w4float_recipe.json',
           'dynamic_wi8_afp32_recipe.json')


def shipped(name):
  with open(os.path.join(RECIPE_DIR, name)) as f:
    return json.load(f)


SHIPPED_AS_RULES = {
    'default_a8w8_recipe.json': [('.*', '*', 'srq8a_cw')],
    'default_a16w8_recipe.json': [('.*', '*', 'srq16_cw')],
    'default_af32w8float_recipe.json': [('.*', '*', 'wo8a_cw')],
    'default_af32w4float_recipe.json': [('.*', '*', 'wo4a_cw')],
    'dynamic_wi8_afp32_recipe.json': [('.*', '*', 'drq8_cw')],
    'recipe.dynamic_wi8_afp32()': [('.*', '*', 'drq8_cw')],
}


def shipped_all():
  from ai_edge_quantizer import recipe as recipe_mod
  out = {n: shipped(n) for n in SHIPPED}
  out['recipe.dynamic_wi8_afp32()'] = recipe_mod.dynamic_wi8_afp32()
  return out


# name -> (algorithm, config).  Modes: srq / drq / wo / fp16 / noq.
CFGS = {
    'srq8a_cw': (MINMAX, C(T(8, False), T(8, True, GR.CHANNELWISE), CP.INTEGER)),
    'srq8a_tw': (MINMAX, C(T(8, False), T(8, True, GR.TENSORWISE), CP.INTEGER)),
    'srq8s_cw': (MINMAX, C(T(8, True), T(8, True, GR.CHANNELWISE), CP.INTEGER)),
    'srq8a_w4': (MINMAX, C(T(8, False), T(4, True, GR.CHANNELWISE), CP.INTEGER)),
    'srq8s_w4tw': (MINMAX, C(T(8, True), T(4, True, GR.TENSORWISE), CP.INTEGER)),
    'srq16_cw': (MINMAX, C(T(16, True), T(8, True, GR.CHANNELWISE), CP.INTEGER)),
    'srq16_tw': (MINMAX, C(T(16, True), T(8, True, GR.TENSORWISE), CP.INTEGER)),
    'srq16_w4': (MINMAX, C(T(16, True), T(4, True, GR.CHANNELWISE), CP.INTEGER)),
    'drq8_cw': (MINMAX, C(None, T(8, True, GR.CHANNELWISE), CP.INTEGER)),
    'drq8_tw': (MINMAX, C(None, T(8, True, GR.TENSORWISE), CP.INTEGER)),
    'drq4_cw': (MINMAX, C(None, T(4, True, GR.CHANNELWISE), CP.INTEGER)),
    'wo8a_cw': (MINMAX, C(None, T(8, False, GR.CHANNELWISE), CP.FLOAT, True)),
    'wo8s_tw': (MINMAX, C(None, T(8, True, GR.TENSORWISE), CP.FLOAT, True)),
    'wo8s_cw': (MINMAX, C(None, T(8, True, GR.CHANNELWISE), CP.FLOAT, True)),
    'wo4s_cw': (MINMAX, C(None, T(4, True, GR.CHANNELWISE), CP.FLOAT, True)),
    'wo4a_tw': (MINMAX, C(None, T(4, False, GR.TENSORWISE), CP.FLOAT, True)),
    'wo4a_cw': (MINMAX, C(None, T(4, False, GR.CHANNELWISE), CP.FLOAT, True)),
    'fp16': (FLOATCAST, C(None, T(16, True, dtype=DT.FLOAT), CP.FLOAT, True)),
    'noq': (NOQ, None),
    # never accepted for a specific op, dropped under '*':
    'bad_drq16': (MINMAX, C(None, T(16, True, GR.TENSORWISE), CP.INTEGER)),
    'bad_wo8_noexplicit': (MINMAX, C(None, T(8, True, GR.TENSORWISE), CP.FLOAT, False)),
    # near misses: one field away from an accepted config
    'bad_drq8_explicit': (MINMAX, C(None, T(8, True, GR.CHANNELWISE), CP.INTEGER, True)),
    'bad_srq8_explicit': (MINMAX, C(T(8, False), T(8, True, GR.CHANNELWISE), CP.INTEGER, True)),
    'bad_srq8_wasym': (MINMAX, C(T(8, False), T(8, False, GR.CHANNELWISE), CP.INTEGER)),
    'bad_fp16_bits8': (FLOATCAST, C(None, T(8, True, dtype=DT.FLOAT), CP.FLOAT, True)),
    # only reachable with skip_checks (advanced users): block-wise weights, realised by operator replacement
    'x_blk8_b2': (MINMAX, C(None, T(8, True, GR.BLOCKWISE, block_size=2), CP.INTEGER, skip_checks=True)),
    'x_blk8wo_b2': (MINMAX, C(None, T(8, True, GR.BLOCKWISE, block_size=2), CP.FLOAT, True, skip_checks=True)),
}
SRQ = [k for k in CFGS if k.startswith('srq')]
DRQ = [k for k in CFGS if k.startswith('drq')]
WO = [k for k in CFGS if k.startswith('wo')]
FLOAT_COMPUTE = DRQ + WO + ['fp16']
GOOD = [k for k in CFGS if not k.startswith('bad') and not k.startswith('x_')]
# same stored weights (bit width, symmetry, granularity), different compute mode: the bytes of a tied constant can be shared
SAME_WEIGHT_FAMILIES = [['drq8_cw', 'wo8s_cw'], ['drq8_tw', 'wo8s_tw'], ['drq4_cw', 'wo4s_cw']]


def mode_of(name):
  if name is None or name == 'noq':
    return 'float'
  alg, cfg = CFGS[name]
  if alg == FLOATCAST:
    return 'fp16'
  if cfg.compute_precision == CP.INTEGER:
    return 'srq' if cfg.activation_tensor_config else 'drq'
  return 'wo'


def op_names_in(model):
  """Operator selector names (qtyping names) present in a parsed model."""
  from vf.gen import models
  out = []
  for sg in model.subgraphs:
    for op in sg.operators:
      c = model.operatorCodes[op.opcodeIndex].builtinCode
      if c in models.SUPPORTED_CODES:
        out.append(models.SUPPORTED_CODES[c])
  return out


def output_names(model):
  return [sg.tensors[int(o)].name.decode() for sg in model.subgraphs
          for op in sg.operators for o in op.outputs]


def regex_family(rng, names, safe_only=False):
  """A regex derived from the model's own tensor names.

  safe_only: forms on which every scope encoding agrees (.*, interior
  substrings, ^prefix) -- used by properties whose subject is not regex
  semantics.
  """
  if not names or rng.random() < 0.4:
    return '.*', 'dotstar'
  n = names[int(rng.integers(len(names)))]
  forms = ['substr', 'prefix', 'interior']
  if not safe_only:
    forms += ['exact_end', 'exact_both', 'with_sep', 'alt', 'caret', 'digit_class', 'empty', 'empty_scope_only', 'optional_tail']
  f = str(rng.choice(forms))
  if f == 'substr':
    return re.escape(n), f
  if f == 'prefix':
    return '^' + re.escape(n[:max(3, len(n) // 2)]), f
  if f == 'interior':
    lo = int(rng.integers(0, max(1, len(n) - 3)))
    return re.escape(n[lo:lo + max(3, len(n) // 2)]), f
  if f == 'exact_end':
    return re.escape(n) + '$', f
  if f == 'exact_both':
    return '^' + re.escape(n) + '$', f
  if f == 'with_sep':
    return re.escape(n) + ';', f
  if f == 'caret':
    return '^' + re.escape(n), f
  if f == 'digit_class':
    return re.sub(r'\\?\d+', '[0-9]+', re.escape(n)), f          # m/fc_[0-9]+ : one rule for a family of tensors
  if f == 'empty':
    return '', f                                                 # found in every scope
  if f == 'empty_scope_only':
    return '^$', f                                               # only operators whose scope is empty (no output tensor name)
  if f == 'optional_tail':
    return re.escape(n[:max(3, len(n) - 2)]) + '.?.?;?$', f
  m = names[int(rng.integers(len(names)))]
  return '(' + re.escape(n) + '|' + re.escape(m) + ')', 'alt'


def random_rules(rng, model, n_rules=None, cfg_pool=None, safe_regex=True,
                 selectors=None, star_p=0.5):
  """[(regex, selector name, cfg name)] -- not yet checked for acceptance."""
  names = output_names(model)
  ops = op_names_in(model) or ['FULLY_CONNECTED']
  cfg_pool = cfg_pool or GOOD
  rules = []
  for _ in range(n_rules or int(rng.integers(1, 4))):
    rx, _form = regex_family(rng, names, safe_only=safe_regex)
    if selectors is not None:
      sel = str(rng.choice(selectors))
    elif rng.random() < star_p:
      sel = '*'
    else:
      r = rng.random()
      sel = 'INPUT' if r < 0.07 else 'OUTPUT' if r < 0.14 else str(rng.choice(ops))
    rules.append((rx, sel, str(rng.choice(cfg_pool))))
  return rules


def apply_rules(qt, rules):
  """Feeds rules to a Quantizer; returns the accepted ones."""
  acc = []
  for rx, sel, name in rules:
    alg, cfg = CFGS[name]
    try:
      qt.update_quantization_recipe(rx, OP(sel), cfg, alg)
      acc.append((rx, sel, name))
    except ValueError:
      pass
  return acc


def json_recipe(recipe):
  """Recipe as plain JSON data (enums -> values)."""
  return json.loads(json.dumps(recipe))


def library_supported(alg, op, cfg):
  """The library's registered support check (a parameter of C03/C11/C13)."""
  from ai_edge_quantizer import algorithm_manager
  try:
    algorithm_manager.check_op_quantization_config(alg, OP(op), cfg)
    return True
  except ValueError:
    return False


def declared_supported(alg, op, cfg):
  """Support predicate read independently from the declared JSON policy (vf/oracle/policy.py)."""
  from ai_edge_quantizer import default_policy
  from vf.oracle import policy
  return policy.supported(default_policy.DEFAULT_JSON_POLICY, str(getattr(alg, 'value', alg)), str(getattr(op, 'value', op)), cfg)


def reference_for(accepted, declared=False):
  """RefRecipe loaded with accepted rules [(regex, selector, cfg name)]."""
  from vf.oracle import resolve
  ref = resolve.RefRecipe(declared_supported if declared else library_supported)
  for rx, sel, name in accepted:
    alg, cfg = CFGS[name]
    ref.add(rx, sel, alg, cfg, name)
  return ref
