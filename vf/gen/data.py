"""Calibration / test inputs for generated models."""
import numpy as np

DATA_CLASSES = ('normal', 'scaled', 'positive', 'negative', 'zero', 'spike', 'tiny', 'huge')


def sample(rng, sig, cls='normal'):
  """One input dict for signature description `sig` (see models.ModelSpec)."""
  out = {}
  for arg, shape, kind, vocab in sig['inputs']:
    if kind == 'ids':
      out[arg] = rng.integers(0, vocab, size=shape).astype(np.int32)
      continue
    a = rng.normal(size=shape)
    if cls == 'scaled':
      a = a * float(rng.choice([0.1, 3.0, 20.0, 100.0]))
    elif cls == 'positive':
      a = np.abs(a) + 0.05
    elif cls == 'negative':
      a = -np.abs(a) - 0.05
    elif cls == 'zero':
      a = np.zeros(shape)
    elif cls == 'spike':
      a = np.zeros(shape)
      a.flat[int(rng.integers(a.size))] = float(rng.choice([-7.0, 5.0]))
    elif cls == 'tiny':
      a = a * 1e-6
    elif cls == 'huge':
      a = a * 1e6
    out[arg] = a.astype(np.float32)
  return out


def dataset(rng, sig, n=None, classes=('normal',)):
  n = n or int(rng.integers(1, 4))
  return [sample(rng, sig, str(rng.choice(classes))) for _ in range(n)]


def to_jsonable(ds):
  return [{k: {'dtype': str(v.dtype), 'shape': list(v.shape), 'data': v.flatten().tolist()}
           for k, v in d.items()} for d in ds]
