import numpy as np, sys, copy
sys.path.insert(0, '/verif/design_probes')
from rgen import rand_model
from ai_edge_quantizer import quantizer
from ai_edge_quantizer.utils import tfl_interpreter_utils as iu
from tensorflow.lite.tools import flatbuffer_utils as fu
R = '/repo/ai_edge_quantizer/recipes/'
def extract(m, i):
    mm = fu.read_model_from_bytearray(bytearray(m)); mm.subgraphs = [mm.subgraphs[i]]
    sig = [s for s in mm.signatureDefs if s.subgraphIndex == i]; 
    for s in sig: s.subgraphIndex = 0
    mm.signatureDefs = sig
    return bytes(fu.convert_object_to_bytearray(mm))
def data_for(m, key, seed):
    it = iu.create_tfl_interpreter(m); rr = it.get_signature_runner(key); r2 = np.random.default_rng(seed)
    d = [{k: (r2.integers(0, 5, size=dd['shape']).astype(np.int32) if dd['dtype'] == np.int32 else r2.normal(size=dd['shape']).astype(np.float32)) for k, dd in rr.get_input_details().items()} for _ in range(2)]
    iu.invoke_interpreter_signature(it, d[0], key); return d
def sg_view(model_bytes, i):
    m = fu.read_model_from_bytearray(bytearray(model_bytes)); sg = m.subgraphs[i]; oc = m.operatorCodes
    tv = []
    for t in sg.tensors:
        q = t.quantization; qs = None
        if q is not None and q.scale is not None: qs = (tuple(np.asarray(q.scale).tolist()), tuple(np.asarray(q.zeroPoint).tolist()), q.quantizedDimension)
        data = m.buffers[t.buffer].data
        tv.append((t.name, t.type, tuple(t.shape) if t.shape is not None else None, qs, None if data is None else bytes(np.asarray(data).tobytes())))
    ov = [(oc[o.opcodeIndex].builtinCode, tuple(int(x) for x in o.inputs), tuple(int(x) for x in o.outputs)) for o in sg.operators]
    return tv, ov, tuple(int(x) for x in sg.inputs), tuple(int(x) for x in sg.outputs)
res = {'same': 0, 'diff': 0, 'exc_both': 0, 'exc_one': 0}
for seed in range(400):
    for rec in ['default_a8w8_recipe.json', 'default_af32w8float_recipe.json']:
        try:
            m = rand_model(seed, n_sub=2); singles = [extract(m, i) for i in range(2)]
            datas = [data_for(singles[i], f'sig{i}', seed) for i in range(2)]
        except Exception as e: continue
        stats = {}; outs = []; excs = []
        for i in range(2):
            try:
                qt = quantizer.Quantizer(singles[i], R + rec); cal = qt.calibrate(datas[i], f'sig{i}') if qt.need_calibration else {}
                stats.update(copy.deepcopy(cal)); outs.append(bytes(qt.quantize(cal).quantized_model)); excs.append(None)
            except Exception as e: outs.append(None); excs.append(type(e).__name__)
        try:
            qt = quantizer.Quantizer(m, R + rec); merged = bytes(qt.quantize(copy.deepcopy(stats) if qt.need_calibration else None).quantized_model); mexc = None
        except Exception as e: merged = None; mexc = type(e).__name__
        if merged is None or any(o is None for o in outs):
            if (merged is None) == any(o is None for o in outs): res['exc_both'] += 1
            else: res['exc_one'] += 1; print('EXC asym', seed, rec, mexc, excs)
            continue
        ok = all(sg_view(merged, i) == sg_view(outs[i], 0) for i in range(2))
        res['same' if ok else 'diff'] += 1
        if not ok: print('DIFF', seed, rec)
print(res)
