"""Prototype C18: validate() vs own computation; self-compare; edge topologies."""
import numpy as np, sys, collections
sys.path.insert(0, '/verif/design_probes')
from mb import *; from ops import G
from rgen import rand_model
from proto_c06 import decode
from ai_edge_quantizer import quantizer, model_validator
from ai_edge_quantizer.utils import tfl_interpreter_utils as iu, validation_utils
from ai_edge_litert import interpreter as tfl
R = '/repo/ai_edge_quantizer/recipes/'
def tensors(model, x):
    it = tfl.Interpreter(model_content=model, experimental_preserve_all_tensors=True, experimental_op_resolver_type=tfl.OpResolverType.BUILTIN_WITHOUT_DEFAULT_DELEGATES); it.allocate_tensors()
    r = it.get_signature_runner(); ins = {}
    for k, d in r.get_input_details().items():
        v = x[k]; qp = d['quantization_parameters']
        if len(qp['scales']):
            info = np.iinfo(d['dtype']); v = np.clip(np.rint(v / qp['scales'][0] + qp['zero_points'][0]), info.min, info.max).astype(d['dtype'])
        ins[k] = v
    r(**ins); out = {}
    for t in it.get_tensor_details():
        if not t['name'] or t['dtype'] == np.object_: continue
        try: v = it.get_tensor(t['index'])
        except ValueError: continue
        qp = t['quantization_parameters']
        if len(qp['scales']):
            sc = qp['scales'].astype(np.float64); zp = qp['zero_points'].astype(np.int64)
            if len(sc) > 1:
                shp = [1] * v.ndim; shp[qp['quantized_dimension']] = -1; sc = sc.reshape(shp); zp = zp.reshape(shp)
            v = (v.astype(np.int64) - zp) * sc
        out[t['name']] = np.asarray(v, dtype=np.float64)
    return out
stats = collections.Counter()
for seed in range(200):

    try:
        m = rand_model(seed); it = iu.create_tfl_interpreter(m); rr = it.get_signature_runner(); r2 = np.random.default_rng(seed)
        data = [{k: (r2.integers(0, 5, size=dd['shape']).astype(np.int32) if dd['dtype'] == np.int32 else r2.normal(size=dd['shape']).astype(np.float32)) for k, dd in rr.get_input_details().items()} for _ in range(2)]
        iu.invoke_interpreter_signature(it, data[0])
        from tensorflow.lite.tools import flatbuffer_utils as fu0
        if not fu0.read_model_from_bytearray(bytearray(m)).subgraphs[0].operators: continue
    except Exception: continue
    for rec in ['default_a8w8_recipe.json', 'default_af32w4float_recipe.json', 'dynamic_wi8_afp32_recipe.json']:
        qt = quantizer.Quantizer(m, R + rec)
        try:
            cal = qt.calibrate(data) if qt.need_calibration else None; qm = bytes(qt.quantize(cal).quantized_model); iu.create_tfl_interpreter(qm)
        except Exception: stats['skip_quant_fail'] += 1; continue
        itq = iu.create_tfl_interpreter(qm); gd = []
        for x in data:
            y = {}
            for k, d in itq.get_signature_runner().get_input_details().items():
                qp = d['quantization_parameters']
                if len(qp['scales']):
                    sc = float(qp['scales'][0]); zp = int(qp['zero_points'][0]); q = np.clip(np.rint(x[k] / sc + zp), -127, 127); y[k] = ((q - zp) * sc).astype(np.float32)
                else: y[k] = x[k]
            gd.append(y)
        data_g = gd
        try: v = qt.validate({'serving_default': data_g}, 'mse').get_signature_comparison_result()
        except Exception as e: stats['validate_exc_' + type(e).__name__] += 1; ex = (seed, rec, str(e)[:100]); print('VALIDATE EXC', ex); continue
        groups = {'in': v.input_tensors, 'out': v.output_tensors, 'const': v.constant_tensors, 'mid': v.intermediate_tensors}
        allnames = [n for g in groups.values() for n in g]
        if len(allnames) != len(set(allnames)): stats['DUP'] += 1
        mine = collections.defaultdict(list)
        try:
            for x in data_g:
                a = tensors(m, x); b = tensors(qm, x)
                for n in a:
                    if n in b and a[n].size == b[n].size: mine[n].append(float(np.mean((a[n].ravel() - b[n].ravel()) ** 2)) if a[n].size else 0.0)
        except Exception as e: stats['own_exc'] += 1; print('own exc', seed, rec, e); continue
        from tensorflow.lite.tools import flatbuffer_utils as fu
        declared = {t.name.decode() for t in fu.read_model_from_bytearray(bytearray(m)).subgraphs[0].tensors}
        rep = {n: val for g in groups.values() for n, val in g.items() if n in declared}; mine = {n: v_ for n, v_ in mine.items() if n in declared}
        if set(rep) != set(mine): stats['KEYSET_DIFF'] += 1; print('keys', seed, rec, set(rep) ^ set(mine))
        for n in set(rep) & set(mine):
            stats['tensors'] += 1
            if not np.isclose(rep[n], np.mean(mine[n]), rtol=1e-4, atol=1e-9): stats['VALUE_DIFF'] += 1; print('value', seed, rec, n, rep[n], np.mean(mine[n]))
    # self compare
    s = model_validator.compare_model(m, m, {'serving_default': data}, 'mse', validation_utils.get_validation_func('mse')).get_signature_comparison_result()
    if any(val != 0 for g in (s.input_tensors, s.output_tensors, s.constant_tensors, s.intermediate_tensors) for val in g.values()): stats['SELF_NONZERO'] += 1
print(dict(stats))
