import numpy as np, sys, copy, json, traceback
sys.path.insert(0, '/verif/design_probes')
from mb import *
from ai_edge_quantizer import quantizer, recipe, qtyping, model_modifier, model_validator
from ai_edge_quantizer.utils import tfl_interpreter_utils as iu, validation_utils
import inspect_model
rng = np.random.default_rng(0)
R = '/repo/ai_edge_quantizer/recipes/'
def run(m, rec, data, sig=None, dump=False):
    qt = quantizer.Quantizer(m, rec)
    cal = qt.calibrate(data, sig) if qt.need_calibration else None
    res = qt.quantize(cal)
    if dump: inspect_model.dump(bytes(res.quantized_model))
    return qt, res
def t(name, f):
    print('---', name)
    try: f()
    except Exception as e: print('  EXC', type(e).__name__, str(e)[:300]); 
xin = rng.normal(size=(1, 8)).astype(np.float32)
def two_sig():
    b = B()
    for k in range(2):
        sg = b.subgraph(f'g{k}'); x = b.act(sg, f'g{k}_x', [1, 8]); w = b.const(sg, f'g{k}_w', rng.normal(size=(8, 8)).astype(np.float32)); y = b.act(sg, f'g{k}_y', [1, 8])
        o, ot = fc_opts(); b.op(sg, BO.FULLY_CONNECTED, [x, w, -1], [y], o, ot); z = b.act(sg, f'g{k}_z', [1, 8]); b.op(sg, BO.TANH, [y], [z]); sg.inputs=[x]; sg.outputs=[z]
        b.signature(f's{k}', k, [('x', x)], [('z', z)])
    return b.build()
def f4():
    m = two_sig()
    qt = quantizer.Quantizer(m, R + 'default_a8w8_recipe.json')
    c0 = qt.calibrate([{'x': xin}], 's0'); print('  s0 keys', sorted(c0))
    c1 = qt.calibrate([{'x': xin}], 's1', c0); print('  s1 keys', sorted(c1))
    res = qt.quantize(c1); print('  ok', len(res.quantized_model))
t('4. multi-signature calibration', f4)
def f7():
    b = B(); sg = b.subgraph('main'); x = b.act(sg, 'x', [1, 8]); a = b.act(sg, 'a', [1, 8]); b.op(sg, BO.TANH, [x], [a])
    c = b.act(sg, 'c', [1, 8]); b.op(sg, BO.LOGISTIC, [x], [c])
    d = b.act(sg, 'd', [2, 8]); co = S.ConcatenationOptionsT(); co.axis = 0; b.op(sg, BO.CONCATENATION, [a, c], [d], co, S.BuiltinOptions.ConcatenationOptions)
    e = b.act(sg, 'e', [1, 8]); b.op(sg, BO.GELU, [a], [e], S.GeluOptionsT(), S.BuiltinOptions.GeluOptions)
    sg.inputs=[x]; sg.outputs=[d, e]; b.signature('serving_default', 0, [('x', x)], [('d', d), ('e', e)]); m = b.build()
    print('  float', iu.invoke_interpreter_signature(iu.create_tfl_interpreter(m), {'x': xin}))
    qt, res = run(m, R + 'default_a8w8_recipe.json', [{'x': xin}], dump=True)
t('7. tensor feeding concat and another op (a8w8)', f7)
def f8():
    b = B(); sg = b.subgraph('main'); x = b.act(sg, 'x', [1, 8]); a = b.act(sg, 'a', [1, 8]); b.op(sg, BO.TANH, [x], [a])
    c = b.act(sg, 'c', [1, 8]); b.op(sg, BO.MUL, [a, a], [c], S.MulOptionsT(), S.BuiltinOptions.MulOptions)
    sg.inputs=[x]; sg.outputs=[c]; b.signature('serving_default', 0, [('x', x)], [('c', c)]); m = b.build()
    for r in ['default_a8w8_recipe.json', 'default_a16w8_recipe.json']:
        try:
            qt, res = run(m, R + r, [{'x': xin}], dump=True)
            print(iu.invoke_interpreter_signature(iu.create_tfl_interpreter(m), {'x': xin}), iu.invoke_interpreter_signature(iu.create_tfl_interpreter(bytes(res.quantized_model)), {'x': xin}))
        except Exception as e: print('  EXC', r, type(e).__name__, str(e)[:300])
t('8. squared tensor', f8)
def f16():
    b = B(); sg = b.subgraph('main'); x = b.act(sg, 'x', [1, 8]); w = b.const(sg, 'w', rng.normal(size=(5, 8)).astype(np.float32)); bias = b.const(sg, 'b', rng.normal(size=(5,)).astype(np.float32)); y = b.act(sg, 'y', [1, 5])
    o, ot = fc_opts(); b.op(sg, BO.FULLY_CONNECTED, [x, w, bias], [y], o, ot); sg.inputs=[x]; sg.outputs=[y]; b.signature('serving_default', 0, [('x', x)], [('y', y)]); m = b.build()
    qt = quantizer.Quantizer(m, R + 'default_af32w8float_recipe.json')
    small = qt.quantize().quantized_model
    params = qt._get_quantization_params(None)
    mm = model_modifier.ModelModifier(m)
    mm.modify_model.__func__
    import types
    src = mm._process_constant_map
    mm._process_constant_map = lambda qm: (src(qm), 2**31)[1]
    large = mm.modify_model(params)
    print('  small', len(small), 'large', len(large))
    inspect_model.dump(bytes(large))
    from ai_edge_quantizer.utils import tfl_flatbuffer_utils as fu
    ml = fu.read_model(bytes(large))
    for i, bf in enumerate(ml.buffers): print('   buf', i, bf.offset, bf.size, None if bf.data is None else len(bf.data))
    print(iu.invoke_interpreter_signature(iu.create_tfl_interpreter(bytes(small)), {'x': xin}), iu.invoke_interpreter_signature(iu.create_tfl_interpreter(bytes(large)), {'x': xin}))
t('16. large model path', f16)
def f18():
    m = two_sig()
    data = {'s0': [{'x': xin}], 's1': [{'x': xin}]}
    r = model_validator.compare_model(m, m, data, 'mse', validation_utils.get_validation_func('mse'))
    for k in r.available_signature_keys(): print('  ', k, r.get_signature_comparison_result(k))
    qt = quantizer.Quantizer(m, R + 'default_af32w8float_recipe.json'); qt.quantize(); v = qt.validate(data)
    for k in v.available_signature_keys(): print('  ', k, v.get_signature_comparison_result(k))
t('18. validate self', f18)
