import subprocess, sys, os, json, collections
from concurrent.futures import ThreadPoolExecutor
lo, hi, n = int(sys.argv[1]), int(sys.argv[2]), 16
REPO = os.environ.get('AEQ_REPO', '/repo'); env = dict(os.environ, PYTHONPATH=REPO, TF_CPP_MIN_LOG_LEVEL='3')
def sh(i):
    a = lo + (hi - lo) * i // n; b = lo + (hi - lo) * (i + 1) // n
    p = subprocess.run(['/venv/bin/python', '/verif/design_probes/drift_corr_child.py', str(a), str(b)], capture_output=True, text=True, env=env, cwd=REPO)
    if p.returncode: return {'stats': {f'ABORT {p.returncode}': 1}, 'ex': {}}
    return json.loads(p.stdout.strip().splitlines()[-1])
stats = collections.Counter(); ex = {}
with ThreadPoolExecutor(n) as t:
    for r in t.map(sh, range(n)):
        stats.update(r['stats']); [ex.setdefault(k, v) for k, v in r['ex'].items()]
for k, v in sorted(stats.items()): print(v, '|', k, '| seed', ex.get(k))
