import numpy as np, sys
sys.path.insert(0, '/verif/design_probes')
from rgen import rand_model
from ai_edge_quantizer import model_validator
from ai_edge_quantizer.utils import tfl_interpreter_utils as iu, validation_utils
from tensorflow.lite.tools import flatbuffer_utils as fu
names = set()
for seed in range(200):
    try:
        m = rand_model(seed); it = iu.create_tfl_interpreter(m); rr = it.get_signature_runner(); r2 = np.random.default_rng(seed)
        data = [{k: (r2.integers(0, 5, size=dd['shape']).astype(np.int32) if dd['dtype'] == np.int32 else r2.normal(size=dd['shape']).astype(np.float32)) for k, dd in rr.get_input_details().items()} for _ in range(2)]
        iu.invoke_interpreter_signature(it, data[0])
        if not fu.read_model_from_bytearray(bytearray(m)).subgraphs[0].operators: continue
    except Exception: continue
    s = model_validator.compare_model(m, m, {'serving_default': data}, 'mse', validation_utils.get_validation_func('mse')).get_signature_comparison_result()
    declared = {t.name.decode() for t in fu.read_model_from_bytearray(bytearray(m)).subgraphs[0].tensors}
    for g in (s.input_tensors, s.output_tensors, s.constant_tensors, s.intermediate_tensors):
        for n, v in g.items():
            if v != 0: names.add((n, n in declared))
print(names)
