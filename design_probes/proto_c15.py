"""Prototype C15: shared constants under per-consumer recipes."""
import numpy as np, sys, collections, os, itertools, re
sys.path.insert(0, '/verif/design_probes')
from mb import *; from ops import G
from proto_c03 import CFGS, OP, check as modes_check
from proto_c05 import decode_int
import skeleton
from ai_edge_quantizer import quantizer
from ai_edge_quantizer.utils import tfl_interpreter_utils as iu
from tensorflow.lite.tools import flatbuffer_utils as fu
import absl.logging; absl.logging.set_verbosity(absl.logging.ERROR)
TT = S.TensorType
def build(kind, seed):
    rng = np.random.default_rng(seed); b = B()
    if kind == 'same_tensor':
        g = G(b, 'main', 'm/', rng); x = g.inp((2, 8)); w = g.const('w', g.w((8, 8), 0.5)); a = g.fc(x, 8, w=w, bias=False); c = g.fc(g.tanh(a), 8, w=w, bias=False); g.finish([c], 'serving_default'); names = [['m/fc_3'], ['m/fc_5']]
    elif kind == 'same_buffer':
        g = G(b, 'main', 'm/', rng); x = g.inp((2, 8)); w1 = g.const('w', g.w((8, 8), 0.5)); w2 = g.const('w2', np.zeros((8, 8), np.float32), buffer=g.sg.tensors[w1].buffer)
        a = g.fc(x, 8, w=w1, bias=False); c = g.fc(g.tanh(a), 8, w=w2, bias=False); g.finish([c], 'serving_default'); names = None
    else:
        g = G(b, 'g0', 's0/', rng); x = g.inp((2, 8)); w1 = g.const('w', g.w((8, 8), 0.5)); a = g.fc(x, 8, w=w1, bias=False); g.finish([a], 'sig0'); buf = g.sg.tensors[w1].buffer
        g2 = G(b, 'g1', 's1/', rng); x2 = g2.inp((3, 8)); w2 = g2.const('w', np.zeros((8, 8), np.float32), buffer=buf); c = g2.fc(x2, 8, w=w2, bias=False); g2.finish([c], 'sig1')
    return b.build()
def fc_out_names(m):
    fm = fu.read_model_from_bytearray(bytearray(m)); out = []
    for sg in fm.subgraphs:
        for op in sg.operators:
            if fm.operatorCodes[op.opcodeIndex].builtinCode == BO.FULLY_CONNECTED: out.append(sg.tensors[int(op.outputs[0])].name.decode())
    return out
def oracle(src, out):
    errs = []; ms = fu.read_model_from_bytearray(bytearray(src)); mo = fu.read_model_from_bytearray(bytearray(out))
    by_buf = collections.defaultdict(list)
    for si, sg in enumerate(mo.subgraphs):
        for ti, t in enumerate(sg.tensors):
            if mo.buffers[t.buffer].data is not None and len(mo.buffers[t.buffer].data): by_buf[t.buffer].append((si, ti, t))
    for bi, lst in by_buf.items():
        sigs = set()
        for si, ti, t in lst:
            q = t.quantization; sigs.add((t.type, None if q is None or q.scale is None else (tuple(np.asarray(q.scale).tolist()), tuple(np.asarray(q.zeroPoint).tolist()), q.quantizedDimension)))
        if len(sigs) > 1: errs.append(('sharers_disagree', bi, [s[0] for s in sigs]))
        si, ti, t = lst[0]
        src_t = ms.subgraphs[si].tensors[ti] if ti < len(ms.subgraphs[si].tensors) else None
        if src_t is None or src_t.type != TT.FLOAT32 or ms.buffers[src_t.buffer].data is None: continue
        x = np.frombuffer(np.asarray(ms.buffers[src_t.buffer].data, dtype=np.uint8).tobytes(), dtype=np.float32).reshape(src_t.shape).astype(np.float64)
        for si, ti, t in lst:
            if t.type == TT.FLOAT32:
                y = np.frombuffer(np.asarray(mo.buffers[bi].data, dtype=np.uint8).tobytes(), dtype=np.float32)
                if y.size != x.size or not np.array_equal(y.reshape(x.shape), x.astype(np.float32)): errs.append(('float_tensor_on_rewritten_buffer', bi, ti))
            elif t.type == TT.FLOAT16:
                y = np.frombuffer(np.asarray(mo.buffers[bi].data, dtype=np.uint8).tobytes(), dtype=np.float16)
                if y.size != x.size or not np.array_equal(y.reshape(x.shape), x.astype(np.float16)): errs.append(('fp16_mismatch', bi, ti))
            else:
                q = decode_int(t, mo.buffers[bi])
                if q is None: errs.append(('length', bi, ti)); continue
                sc = np.asarray(t.quantization.scale, dtype=np.float64); zp = np.asarray(t.quantization.zeroPoint, dtype=np.int64)
                if len(sc) > 1: shp = [1] * q.ndim; shp[t.quantization.quantizedDimension] = -1; sc = sc.reshape(shp); zp = zp.reshape(shp)
                if np.max(np.abs((q - zp) * sc - x) / sc) > 1.001: errs.append(('decode_beyond_one_step', bi, ti))
    return errs
REPO = os.environ.get('AEQ_REPO', '/repo'); stats = collections.Counter(); ex = {}
cfgnames = ['noq', 'wo8', 'wo4', 'drq8', 'drq4', 'srq8a', 'srq16', 'fp16']
for kind in ['same_tensor', 'same_buffer', 'cross_subgraph']:
    for seed in range(3):
        m = build(kind, seed); fcs = fc_out_names(m)
        it = iu.create_tfl_interpreter(m); keys = list(it.get_signature_list()); rng = np.random.default_rng(seed)
        data = {k: [{a: rng.normal(size=dd['shape']).astype(np.float32) for a, dd in it.get_signature_runner(k).get_input_details().items()} for _ in range(2)] for k in keys}
        for ca, cb in itertools.product(cfgnames, cfgnames):
            qt = quantizer.Quantizer(m); rules = []
            for nm, c in zip(fcs, (ca, cb)):
                alg, cfg = CFGS[c]
                try: qt.update_quantization_recipe(re.escape(nm), OP.FULLY_CONNECTED, cfg, alg); rules.append((re.escape(nm), OP.FULLY_CONNECTED, c))
                except ValueError: pass
            try:
                cal = None
                if qt.need_calibration:
                    for k in keys: cal = qt.calibrate(data[k], k, cal)
                qm = bytes(qt.quantize(cal).quantized_model)
            except Exception as e:
                stats[(kind, 'raised ' + type(e).__name__)] += 1; ex.setdefault((kind, 'raised ' + type(e).__name__), (ca, cb, str(e)[:80])); continue
            errs = oracle(m, qm); mv = []
            try: mv = modes_check(m, qm, rules, collections.Counter())
            except Exception as e: mv = [('modes_check_exc', str(e)[:50])]
            try:
                it2 = iu.create_tfl_interpreter(qm)
                for k in keys: iu.invoke_interpreter_signature(it2, data[k][0], k)
                ik = 'interp_ok'
            except Exception as e: ik = 'INTERP_FAIL'
            key = (kind, 'returned', ik, tuple(sorted(set(e[0] for e in errs))), tuple(sorted(set(e[0] for e in mv))))
            stats[key] += 1; ex.setdefault(key, (ca, cb))
for k, v in sorted(stats.items(), key=str): print(v, k, ex.get(k))
