"""Prototype C14: argument digests across API calls + history independence of quantize() bytes."""
import numpy as np, sys, hashlib, json, collections, os, copy
sys.path.insert(0, '/verif/design_probes')
from rgen import rand_model
from proto_c03 import CFGS, OP
from ai_edge_quantizer import quantizer
from ai_edge_quantizer.utils import tfl_interpreter_utils as iu
from tensorflow.lite.tools import flatbuffer_utils as fu
import absl.logging; absl.logging.set_verbosity(absl.logging.ERROR)
def digest(o):
    h = hashlib.sha256()
    def f(x):
        if isinstance(x, np.ndarray): h.update(b'A' + str(x.dtype).encode() + str(x.shape).encode() + x.tobytes())
        elif isinstance(x, (np.generic,)): h.update(b'G' + str(x.dtype).encode() + x.tobytes())
        elif isinstance(x, dict):
            h.update(b'D')
            for k in sorted(x, key=str): f(k); f(x[k])
        elif isinstance(x, (list, tuple)): h.update(b'L'); [f(y) for y in x]
        elif isinstance(x, (bytes, bytearray)): h.update(b'B' + bytes(x))
        else: h.update(b'S' + repr(x).encode())
    f(o); return h.hexdigest()
REPO = os.environ.get('AEQ_REPO', '/repo'); R = REPO + '/ai_edge_quantizer/recipes/'
stats = collections.Counter(); ex = {}
def note(k, w): stats[k] += 1; ex.setdefault(k, w)
for seed in range(int(sys.argv[1]), int(sys.argv[2])):
    rng = np.random.default_rng(seed)
    try:
        m = rand_model(seed); it = iu.create_tfl_interpreter(m)
        if not fu.read_model_from_bytearray(bytearray(m)).subgraphs[0].operators: continue
        rr = it.get_signature_runner(); data = [{a: (rng.integers(0, 5, size=dd['shape']).astype(np.int32) if dd['dtype'] == np.int32 else rng.normal(size=dd['shape']).astype(np.float32)) for a, dd in rr.get_input_details().items()} for _ in range(2)]
        iu.invoke_interpreter_signature(it, data[0])
    except Exception: continue
    recA = json.load(open(R + 'default_a8w8_recipe.json')); recB = [dict(recA[0], regex='.*', operation='FULLY_CONNECTED')]
    fm = fu.read_model_from_bytearray(bytearray(m)); codes = {fm.operatorCodes[o.opcodeIndex].builtinCode for o in fm.subgraphs[0].operators}
    # B: quantize only one op type that exists
    from proto_c03 import CODE2NAME
    present = [CODE2NAME[c].value for c in codes if c in CODE2NAME and CODE2NAME[c].value != 'EMBEDDING_LOOKUP']
    if not present: continue
    recB = [dict(recA[0], operation=str(rng.choice(present)))]
    def fresh(rec, cal):
        q = quantizer.Quantizer(bytes(m), copy.deepcopy(rec))
        try: return hashlib.sha256(bytes(q.quantize(copy.deepcopy(cal)).quantized_model)).hexdigest()
        except Exception as e: return 'EXC ' + type(e).__name__
    qt = quantizer.Quantizer(m, recA); d0 = (digest(m), digest(recA), digest(data))
    try: cal = qt.calibrate(data)
    except Exception as e: note('calib_exc', seed); continue
    if (digest(m), digest(recA), digest(data)) != d0: note('CALIBRATE_MUTATED_ARGS', seed)
    cal0 = copy.deepcopy(cal); dcal = digest(cal)
    refA, refB = fresh(recA, cal0), fresh(recB, cal0)
    try: a1 = hashlib.sha256(bytes(qt.quantize(cal).quantized_model)).hexdigest()
    except Exception as e: a1 = 'EXC ' + type(e).__name__
    if digest(cal) != dcal: note('QUANTIZE_MUTATED_CALIBRATION_RESULT', seed)
    if a1 != refA: note('A_DIFFERS_FROM_FRESH', seed)
    qt.load_quantization_recipe(recB)
    try: b1 = hashlib.sha256(bytes(qt.quantize(cal).quantized_model)).hexdigest()
    except Exception as e: b1 = 'EXC ' + type(e).__name__
    if b1 != refB: note('B_AFTER_A_DIFFERS_FROM_FRESH', (seed, recB[0]['operation']))
    q2 = quantizer.Quantizer(m, recB)
    try: b2 = hashlib.sha256(bytes(q2.quantize(cal).quantized_model)).hexdigest()
    except Exception as e: b2 = 'EXC ' + type(e).__name__
    if b2 != refB: note('B_OTHER_OBJECT_SHARED_CAL_DIFFERS', seed)
    if (digest(m), digest(data)) != (d0[0], d0[2]): note('MODEL_OR_DATA_MUTATED', seed)
    stats['histories'] += 1
for k, v in sorted(stats.items()): print(v, k, ex.get(k, ''))
