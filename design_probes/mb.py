"""Tiny direct flatbuffer model builder (experiment)."""
import numpy as np
from ai_edge_litert import schema_py_generated as S
from tensorflow.lite.tools import flatbuffer_utils

BO = S.BuiltinOperator
class B:
    def __init__(self):
        self.m = S.ModelT(); self.m.version = 3; self.m.description = b'verif'
        self.m.buffers = [S.BufferT()]  # sentinel
        self.m.operatorCodes = []; self.m.subgraphs = []; self.m.signatureDefs = []
        self.m.metadata = []
    def opcode(self, code):
        for i, c in enumerate(self.m.operatorCodes):
            if c.builtinCode == code: return i
        c = S.OperatorCodeT(); c.builtinCode = code; c.deprecatedBuiltinCode = min(code, 127); c.version = 1
        self.m.operatorCodes.append(c); return len(self.m.operatorCodes) - 1
    def subgraph(self, name):
        sg = S.SubGraphT(); sg.name = name.encode(); sg.tensors = []; sg.operators = []; sg.inputs = []; sg.outputs = []
        self.m.subgraphs.append(sg); return sg
    def act(self, sg, name, shape, ttype=S.TensorType.FLOAT32):
        b = S.BufferT(); self.m.buffers.append(b)
        t = S.TensorT(); t.name = name.encode(); t.shape = list(shape); t.type = ttype; t.buffer = len(self.m.buffers) - 1
        sg.tensors.append(t); return len(sg.tensors) - 1
    def const(self, sg, name, arr, buffer=None):
        arr = np.asarray(arr)
        ttype = {np.dtype('float32'): S.TensorType.FLOAT32, np.dtype('int32'): S.TensorType.INT32}[arr.dtype]
        if buffer is None:
            b = S.BufferT(); b.data = np.frombuffer(arr.tobytes(), dtype=np.uint8); self.m.buffers.append(b); buffer = len(self.m.buffers) - 1
        t = S.TensorT(); t.name = name.encode(); t.shape = list(arr.shape); t.type = ttype; t.buffer = buffer
        sg.tensors.append(t); return len(sg.tensors) - 1
    def op(self, sg, code, inputs, outputs, opts=None, opts_type=0):
        o = S.OperatorT(); o.opcodeIndex = self.opcode(code); o.inputs = list(inputs); o.outputs = list(outputs)
        if opts is not None:
            o.builtinOptions = opts; o.builtinOptionsType = opts_type
        sg.operators.append(o); return len(sg.operators) - 1
    def signature(self, key, sg_index, inputs, outputs):
        s = S.SignatureDefT(); s.signatureKey = key.encode(); s.subgraphIndex = sg_index
        s.inputs = []; s.outputs = []
        for n, ti in inputs:
            tm = S.TensorMapT(); tm.name = n.encode(); tm.tensorIndex = ti; s.inputs.append(tm)
        for n, ti in outputs:
            tm = S.TensorMapT(); tm.name = n.encode(); tm.tensorIndex = ti; s.outputs.append(tm)
        self.m.signatureDefs.append(s)
    def build(self):
        return bytes(flatbuffer_utils.convert_object_to_bytearray(self.m))

def fc_opts(act=0, keep=False):
    o = S.FullyConnectedOptionsT(); o.fusedActivationFunction = act; o.keepNumDims = keep; return o, S.BuiltinOptions.FullyConnectedOptions
