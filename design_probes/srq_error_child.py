import numpy as np, sys, collections, json
sys.path.insert(0, '/verif/design_probes')
from rgen import rand_model
import fbcheck
from ai_edge_quantizer import quantizer
from ai_edge_quantizer.utils import tfl_interpreter_utils as iu
import os; R = os.environ.get('AEQ_REPO', '/repo') + '/ai_edge_quantizer/recipes/'
lo, hi = int(sys.argv[1]), int(sys.argv[2]); rec = sys.argv[3]
rows = []
for seed in range(lo, hi):
    try:
        m = rand_model(seed, allow_unsupported=False, allow_emb=False, allow_bmm_const=False); it = iu.create_tfl_interpreter(m); rr = it.get_signature_runner(); r2 = np.random.default_rng(3)
        d = [{k: r2.normal(size=dd['shape']).astype(np.float32) for k, dd in rr.get_input_details().items()} for _ in range(1)]
        fo = iu.invoke_interpreter_signature(it, d[0])
        amax = max(float(np.max(np.abs(it.get_tensor(t['index'])))) for t in it.get_tensor_details() if t['dtype'] == np.float32 and t['name'])
        qt = quantizer.Quantizer(m, R + rec); cal = qt.calibrate(d)
        qm = bytes(qt.quantize(cal).quantized_model)
        if fbcheck.check(qm): continue
        it2 = iu.create_tfl_interpreter(qm); qo = iu.invoke_interpreter_signature(it2, d[0]); sr = it2.get_signature_runner()
    except Exception as e: continue
    for k, det in sr.get_output_details().items():
        qp = det['quantization_parameters']
        if not len(qp['scales']): continue
        sc = float(qp['scales'][0]); zp = int(qp['zero_points'][0])
        deq = (qo[k].astype(np.float64) - zp) * sc; f = fo[k].astype(np.float64)
        err = float(np.max(np.abs(deq - f))); rng_f = float(np.max(f) - np.min(f))
        rows.append((seed, k, err / sc, err / max(amax, 1e-9), err, sc, amax, rng_f, float(np.max(deq) - np.min(deq))))
print(json.dumps(rows))
