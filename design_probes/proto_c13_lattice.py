"""Prototype C13 (a): enumerate the full config lattice through update_quantization_recipe."""
import itertools, collections, time, sys
from ai_edge_quantizer import quantizer, qtyping, algorithm_manager
import absl.logging; absl.logging.set_verbosity(absl.logging.ERROR)
OP = qtyping.TFLOperationName; T = qtyping.TensorQuantizationConfig; C = qtyping.OpQuantizationConfig
G = qtyping.QuantGranularity; D = qtyping.TensorDataType; CP = qtyping.ComputePrecision; ALG = algorithm_manager.AlgorithmName
selectors = [o for o in OP if o not in (OP.ALL_SUPPORTED, OP.CUSTOM_OP)]
acts = [None, (8, True), (8, False), (16, True), (16, False)]
lat = list(itertools.product(acts, [4, 8, 16], [True, False], [G.TENSORWISE, G.CHANNELWISE], [D.INT, D.FLOAT], [CP.INTEGER, CP.FLOAT], [False, True], [ALG.MIN_MAX_UNIFORM_QUANT, ALG.FLOAT_CASTING]))
print('selectors', len(selectors), 'lattice', len(lat), 'total', len(selectors) * len(lat))
dummy = open('/repo/ai_edge_quantizer/tests/models/single_fc.tflite', 'rb').read()
out = collections.Counter(); acc = collections.defaultdict(list); t0 = time.time()
for sel in selectors:
    for (a, wb, ws, wg, wd, cp, ed, alg) in lat:
        try:
            cfg = C(activation_tensor_config=None if a is None else T(a[0], a[1]), weight_tensor_config=T(wb, ws, wg, wd), compute_precision=cp, explicit_dequantize=ed)
        except ValueError: out['refused_at_construction'] += 1; continue
        except Exception as e: out['construction_' + type(e).__name__] += 1; continue
        qt = quantizer.Quantizer(dummy)
        try: qt.update_quantization_recipe('.*', sel, cfg, alg); out['accepted'] += 1; acc[sel.value].append((a, wb, ws, wg.value, wd.value, cp.value, ed, alg.value))
        except ValueError: out['refused_ValueError'] += 1
        except Exception as e: out['refused_' + type(e).__name__] += 1
print(dict(out), 'time', time.time() - t0)
for k, v in acc.items(): print(k, len(v))
print('FC accepted:'); [print('  ', x) for x in acc['FULLY_CONNECTED']]
