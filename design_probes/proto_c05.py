"""Prototype C05: decode stored constants and compare element-wise with the source."""
import numpy as np, sys, collections
sys.path.insert(0, '/verif/design_probes')
from mb import *
from rgen import rand_model
from ai_edge_quantizer import quantizer, qtyping
from ai_edge_quantizer.utils import tfl_interpreter_utils as iu
from tensorflow.lite.tools import flatbuffer_utils as fu
R = '/repo/ai_edge_quantizer/recipes/'; TT = S.TensorType
ITEM = {TT.INT8: np.int8, TT.INT16: np.int16, TT.INT32: np.int32, TT.INT64: np.int64}
def decode_int(t, buf):
    raw = np.asarray(buf.data, dtype=np.uint8).tobytes(); n = int(np.prod(t.shape)) if len(t.shape) else 1
    if t.type == TT.INT4:
        if len(raw) != (n + 1) // 2: return None
        b = np.frombuffer(raw, dtype=np.uint8); v = np.stack([(b & 0x0F), (b >> 4)], 1).reshape(-1)[:n].astype(np.int16); v = np.where(v > 7, v - 16, v)
    else:
        dt = ITEM[t.type]
        if len(raw) != n * np.dtype(dt).itemsize: return None
        v = np.frombuffer(raw, dtype=dt)
    return v.reshape(t.shape).astype(np.int64)
stats = collections.Counter(); worst = collections.defaultdict(float)
for seed in range(300):
    try:
        m = rand_model(seed); it = iu.create_tfl_interpreter(m); rr = it.get_signature_runner(); r2 = np.random.default_rng(seed)
        data = [{k: (r2.integers(0, 5, size=dd['shape']).astype(np.int32) if dd['dtype'] == np.int32 else r2.normal(size=dd['shape']).astype(np.float32)) for k, dd in rr.get_input_details().items()} for _ in range(2)]
        iu.invoke_interpreter_signature(it, data[0])
    except Exception: continue
    fs = fu.read_model_from_bytearray(bytearray(m))
    for rec in ['default_a8w8_recipe.json', 'default_a16w8_recipe.json', 'default_af32w4float_recipe.json', 'default_af32w8float_recipe.json', 'dynamic_wi8_afp32_recipe.json']:
        qt = quantizer.Quantizer(m, R + rec)
        try: cal = qt.calibrate(data) if qt.need_calibration else None; qm = bytes(qt.quantize(cal).quantized_model)
        except Exception: continue
        fo = fu.read_model_from_bytearray(bytearray(qm)); sym_w = 'af32' not in rec
        for ti, t in enumerate(fs.subgraphs[0].tensors):
            src = fs.buffers[t.buffer].data
            if src is None or t.type != TT.FLOAT32: continue
            to = fo.subgraphs[0].tensors[ti]
            if to.type == TT.FLOAT32: continue
            x = np.frombuffer(np.asarray(src, dtype=np.uint8).tobytes(), dtype=np.float32).reshape(t.shape).astype(np.float64)
            q = decode_int(to, fo.buffers[to.buffer])
            if q is None: stats['LENGTH'] += 1; continue
            sc = np.asarray(to.quantization.scale, dtype=np.float64); zp = np.asarray(to.quantization.zeroPoint, dtype=np.int64)
            if len(sc) > 1:
                shp = [1] * q.ndim; shp[to.quantization.quantizedDimension] = -1; sc = sc.reshape(shp); zp = zp.reshape(shp)
            deq = (q - zp) * sc; err_steps = np.abs(deq - x) / sc
            is_bias = to.type in (TT.INT32, TT.INT64)
            all_zero_zp = bool(np.all(zp == 0))
            kind = 'bias' if is_bias else ('sym' if all_zero_zp else 'asym')
            lim = 0.5 if kind in ('sym', 'bias') else 1.0
            e = float(np.max(err_steps)) if err_steps.size else 0.0; worst[kind] = max(worst[kind], e); stats['consts_' + kind] += 1; stats['elements'] += int(x.size)
            if e > lim * (1 + 1e-3) + (np.max(np.abs(x / sc)) * 2.0 ** -22 if is_bias else 0): stats['VIOL_' + kind] += 1; print('viol', seed, rec, t.name, kind, e)
print(dict(stats), dict(worst))
