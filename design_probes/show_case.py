import numpy as np, sys
sys.path.insert(0, '/verif/design_probes')
from rgen import rand_model
import inspect_model
from ai_edge_quantizer import quantizer
from ai_edge_quantizer.utils import tfl_interpreter_utils as iu
seed = int(sys.argv[1]); rec = sys.argv[2]
m = rand_model(seed); inspect_model.dump(m)
it = iu.create_tfl_interpreter(m); rr = it.get_signature_runner(); r2 = np.random.default_rng(3)
d = [{k: (r2.integers(0, 5, size=dd['shape']).astype(np.int32) if dd['dtype'] == np.int32 else r2.normal(size=dd['shape']).astype(np.float32)) for k, dd in rr.get_input_details().items()} for _ in range(2)]
qt = quantizer.Quantizer(m, '/repo/ai_edge_quantizer/recipes/' + rec); cal = qt.calibrate(d) if qt.need_calibration else None
qm = bytes(qt.quantize(cal).quantized_model); inspect_model.dump(qm)
sys.stdout.flush()
import faulthandler; faulthandler.enable()
it2 = iu.create_tfl_interpreter(qm); print(iu.invoke_interpreter_signature(it2, d[0]))
