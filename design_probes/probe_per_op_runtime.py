"""Per-op: float model runs; quantize with each shipped recipe + specific-op SRQ; interpreter in subprocess."""
import numpy as np, sys, os, json, subprocess, tempfile, traceback
sys.path.insert(0, '/verif/design_probes')
from mb import *; from ops import G
from ai_edge_quantizer import quantizer, qtyping
from ai_edge_quantizer.utils import tfl_interpreter_utils as iu
R = '/repo/ai_edge_quantizer/recipes/'
rng = np.random.default_rng(1)
def mk(fn, in_shape=(1, 8), ids=False):
    b = B(); g = G(b, 'main', '', rng)
    x = g.inp(in_shape, S.TensorType.INT32 if ids else S.TensorType.FLOAT32, name='x')
    outs = fn(g, x); outs = outs if isinstance(outs, list) else [outs]
    g.finish(outs, 'serving_default'); return b.build()
cases = {
 'FULLY_CONNECTED': mk(lambda g, x: g.fc(x, 4)),
 'FC_keep3d': mk(lambda g, x: g.fc(x, 4, keep=True), (2, 3, 8)),
 'CONV_2D': mk(lambda g, x: g.conv(x, 3), (1, 5, 5, 2)),
 'DEPTHWISE_CONV_2D': mk(lambda g, x: g.dwconv(x, 2), (1, 5, 5, 2)),
 'CONV_2D_TRANSPOSE': mk(lambda g, x: g.tconv(x, 3), (1, 3, 3, 2)),
 'TCONV_nobias': mk(lambda g, x: g.tconv(x, 3, bias=False), (1, 3, 3, 2)),
 'BATCH_MATMUL_const': mk(lambda g, x: g.bmm(x), (2, 3, 8)),
 'BATCH_MATMUL_adjy': mk(lambda g, x: g.bmm(x, adj_y=True), (2, 3, 8)),
 'BATCH_MATMUL_act': mk(lambda g, x: g.bmm(x, g.tanh(g.transpose(x, [0, 2, 1]))), (2, 3, 8)),
 'EMBEDDING_LOOKUP': mk(lambda g, x: g.emb(x, 10, 4), (3,), ids=True),
 'AVERAGE_POOL_2D': mk(lambda g, x: g.avgpool(x), (1, 4, 4, 2)),
 'RESHAPE': mk(lambda g, x: g.reshape(x, [2, 4])),
 'SOFTMAX': mk(lambda g, x: g.softmax(x)),
 'TANH': mk(lambda g, x: g.tanh(x)),
 'LOGISTIC': mk(lambda g, x: g.logistic(x)),
 'GELU': mk(lambda g, x: g.gelu(x)),
 'RSQRT': mk(lambda g, x: g.rsqrt(g.logistic(x))),
 'TRANSPOSE': mk(lambda g, x: g.transpose(x, [1, 0])),
 'ADD': mk(lambda g, x: g.add(x, g.tanh(x))),
 'ADD_const': mk(lambda g, x: g.add(x, g.const('c', g.w((8,))))),
 'SUB': mk(lambda g, x: g.sub(x, g.tanh(x))),
 'MUL': mk(lambda g, x: g.mul(x, g.tanh(x))),
 'MUL_const': mk(lambda g, x: g.mul(x, g.const('c', g.w((8,))))),
 'MEAN': mk(lambda g, x: g.mean(x, [1]), (2, 8)),
 'CONCATENATION': mk(lambda g, x: g.concat([x, g.tanh(x)], 1)),
 'STRIDED_SLICE': mk(lambda g, x: g.strided_slice(x, [0, 1], [1, 7], [1, 2])),
 'SPLIT': mk(lambda g, x: g.split(x, 1, 2)),
 'RELU(unsupported)': mk(lambda g, x: g.fc(g.relu(g.fc(x, 4)), 3)),
}
worker = r'''
import sys, json, numpy as np
from ai_edge_quantizer.utils import tfl_interpreter_utils as iu
p, seed = sys.argv[1], int(sys.argv[2]); m = open(p, 'rb').read()
it = iu.create_tfl_interpreter(m); r = it.get_signature_runner('serving_default'); rng = np.random.default_rng(seed)
ins = {}
for k, d in r.get_input_details().items():
    ins[k] = rng.integers(0, 5, size=d['shape']).astype(np.int32) if d['dtype'] == np.int32 else rng.normal(size=d['shape']).astype(np.float32)
out = iu.invoke_interpreter_signature(it, ins, 'serving_default')
print(json.dumps({k: [str(v.dtype), np.asarray(v, dtype=np.float64).ravel()[:4].tolist()] for k, v in out.items()}))
'''
open('/tmp/aeq_probe_worker.py', 'w').write(worker)
def run_interp(model):
    with tempfile.NamedTemporaryFile(suffix='.tflite', delete=False) as f: f.write(model); p = f.name
    r = subprocess.run(['/venv/bin/python', '/tmp/aeq_probe_worker.py', p, '7'], capture_output=True, text=True, timeout=120, env=dict(os.environ, PYTHONPATH='/repo', TF_CPP_MIN_LOG_LEVEL='3'))
    os.unlink(p)
    if r.returncode != 0: return f'RC={r.returncode} ' + r.stderr.strip().splitlines()[-1][:200]
    return r.stdout.strip().splitlines()[-1][:160]
for name, m in cases.items():
    print('=====', name, 'float:', run_interp(m))
    it = iu.create_tfl_interpreter(m); rr = it.get_signature_runner('serving_default'); r2 = np.random.default_rng(3)
    data = []
    for _ in range(2):
        d = {}
        for k, dd in rr.get_input_details().items(): d[k] = r2.integers(0, 5, size=dd['shape']).astype(np.int32) if dd['dtype'] == np.int32 else r2.normal(size=dd['shape']).astype(np.float32)
        data.append(d)
    for rec in ['default_a8w8_recipe.json', 'default_a16w8_recipe.json', 'dynamic_wi8_afp32_recipe.json', 'default_af32w8float_recipe.json', 'default_af32w4float_recipe.json']:
        try:
            qt = quantizer.Quantizer(m, R + rec); cal = qt.calibrate(data, 'serving_default') if qt.need_calibration else None
            qm = bytes(qt.quantize(cal).quantized_model)
            print('   ', rec[:-12], '->', run_interp(qm))
        except Exception as e:
            print('   ', rec[:-12], 'EXC', type(e).__name__, str(e)[:200])
