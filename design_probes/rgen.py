"""Prototype random DAG generator in converter normal form."""
import numpy as np
from mb import B, BO, S
from ops import G

def rand_graph(g, rng, n_ops=6, allow_unsupported=True, allow_emb=True, in_kind=None, allow_bmm_const=True):
    """Populate subgraph g; returns list of output tensor ids."""
    kind = in_kind or rng.choice(['r2', 'r3', 'r4'], p=[0.45, 0.2, 0.35])
    if kind == 'r2': x = g.inp((int(rng.integers(1, 3)), int(rng.choice([4, 6, 8]))))
    elif kind == 'r3': x = g.inp((int(rng.integers(1, 3)), int(rng.integers(2, 4)), int(rng.choice([4, 8]))))
    else: x = g.inp((1, int(rng.choice([4, 5, 6])), int(rng.choice([4, 5, 6])), int(rng.integers(1, 4))))
    avail = [x]; consumed = set()
    if allow_emb and rng.random() < 0.15:
        ids = g.inp((int(rng.integers(2, 4)),), S.TensorType.INT32); e = g.emb(ids, 6, int(rng.choice([4, 8]))); avail.append(e)
    if rng.random() < 0.2:
        x2 = g.inp(g.shape[x]); avail.append(x2)
    def pick(pred=lambda t: True):
        c = [t for t in avail if pred(t)]
        if not c: return None
        # bias to recent
        w = np.arange(1, len(c) + 1, dtype=float) ** 1.5; return c[int(rng.choice(len(c), p=w / w.sum()))]
    rank = lambda t: len(g.shape[t])
    for _ in range(n_ops):
        t = pick(); sh = g.shape[t]; r = rank(t); outs = None
        cands = ['tanh', 'logistic', 'gelu', 'softmax', 'add', 'sub', 'mul', 'reshape', 'transpose', 'mean', 'concat', 'strided_slice', 'split', 'rsqrt']
        if allow_unsupported: cands += ['relu', 'abs', 'neg', 'maximum']
        if r in (2, 3): cands += ['fc', 'fc', 'fc']
        if r == 3: cands += (['bmm'] if allow_bmm_const else []) + ['bmm_act']
        if r == 4: cands += ['conv', 'conv', 'dwconv', 'tconv', 'avgpool']
        k = str(rng.choice(cands)); ins = [t]
        if k == 'fc': outs = [g.fc(t, int(rng.choice([3, 4, 8])), bias=rng.random() < 0.7, act=int(rng.choice([0, 1, 3])), keep=(r == 3 and rng.random() < 0.7))]
        elif k == 'conv': outs = [g.conv(t, int(rng.integers(1, 4)), k=int(rng.choice([1, 3])), stride=int(rng.choice([1, 2])), same=bool(rng.random() < 0.6), bias=rng.random() < 0.7, act=int(rng.choice([0, 1])))]
        elif k == 'dwconv': outs = [g.dwconv(t, int(rng.choice([1, 2])), k=int(rng.choice([1, 3])), same=True, bias=rng.random() < 0.7)]
        elif k == 'tconv': outs = [g.tconv(t, int(rng.integers(1, 3)), bias=rng.random() < 0.5)]
        elif k == 'avgpool':
            if min(sh[1], sh[2]) < 2: continue
            outs = [g.avgpool(t)]
        elif k == 'bmm': outs = [g.bmm(t, n_out=int(rng.choice([2, 4])), adj_y=bool(rng.random() < 0.4))]
        elif k == 'bmm_act':
            u = pick(lambda u: rank(u) == 3 and g.shape[u][0] == sh[0] and g.shape[u][2] == sh[2])
            if u is None: continue
            outs = [g.bmm(t, u, adj_y=True)]; ins.append(u)
        elif k in ('tanh', 'logistic', 'gelu', 'softmax', 'relu', 'abs', 'neg'): outs = [getattr(g, k)(t)]
        elif k == 'rsqrt':
            p = pick(lambda u: u in g.positive)
            if p is None: continue
            c = g.const('half', np.full((1,), 0.5, dtype=np.float32)); a = g.add(p, c); outs = [g.rsqrt(a)]; ins = [p]; avail.append(a); consumed.add(a)
        elif k in ('add', 'sub', 'mul', 'maximum'):
            mode = rng.random()
            if mode < 0.5:
                u = pick(lambda u: g.shape[u] == sh)
            elif mode < 0.8:
                u = g.const(k + '_c', g.w((sh[-1],) if rng.random() < 0.5 else sh))
            else: u = t  # repeated operand
            if u is None: continue
            outs = [getattr(g, k)(t, u)]; ins.append(u)
        elif k == 'reshape':
            n = int(np.prod(sh)); new = [sh[0], n // sh[0]] if r != 2 else [1, n]
            outs = [g.reshape(t, new)]
        elif k == 'transpose':
            perm = list(rng.permutation(r)); outs = [g.transpose(t, [int(p) for p in perm])]
        elif k == 'mean':
            ax = int(rng.integers(1, r)); outs = [g.mean(t, [ax], keep=bool(rng.random() < 0.5))]
        elif k == 'concat':
            u = pick(lambda u: g.shape[u] == sh)
            xs = [t, u] if rng.random() < 0.8 else [t, t]
            if rng.random() < 0.2: xs.append(pick(lambda u: g.shape[u] == sh))
            outs = [g.concat(xs, int(rng.integers(0, r)))]; ins = xs
        elif k == 'strided_slice':
            ax = r - 1
            if sh[ax] < 2: continue
            begin = [0] * r; end = list(sh); strides = [1] * r; begin[ax] = int(rng.integers(0, sh[ax] - 1)); strides[ax] = int(rng.choice([1, 2]))
            outs = [g.strided_slice(t, begin, end, strides)]
        elif k == 'split':
            axs = [a for a in range(r) if sh[a] % 2 == 0 and sh[a] >= 2]
            if not axs: continue
            outs = g.split(t, int(rng.choice(axs)), 2)
        if outs is None: continue
        consumed.update(ins); avail.extend(outs)
    graph_inputs = set(g.sg.inputs)
    outputs = [t for t in avail if t not in consumed and t not in graph_inputs]
    extra = [t for t in avail if t in consumed and t not in graph_inputs and rng.random() < 0.15]
    outputs += extra
    if not outputs: outputs = [avail[-1]]
    return outputs

def rand_model(seed, n_sub=1, **kw):
    rng = np.random.default_rng(seed); b = B()
    for i in range(n_sub):
        g = G(b, f'sub{i}', f's{i}/' if n_sub > 1 else 'm/', rng)
        outs = rand_graph(g, rng, n_ops=int(rng.integers(1, 9)), **kw)
        g.finish(outs, 'serving_default' if n_sub == 1 else f'sig{i}')
    return b.build()
