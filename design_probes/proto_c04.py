"""Prototype C04: local per-operand reference for activation params (SRQ, '*' recipe)."""
import numpy as np, sys, copy, collections
sys.path.insert(0, '/verif/design_probes')
from rgen import rand_model
from mb import BO
from ai_edge_quantizer import quantizer
from ai_edge_quantizer.utils import tfl_interpreter_utils as iu
from tensorflow.lite.tools import flatbuffer_utils as fu
R = '/repo/ai_edge_quantizer/recipes/'
SAME_IN = {BO.RESHAPE: 0, BO.TRANSPOSE: 0, BO.SPLIT: 1, BO.STRIDED_SLICE: 0, BO.AVERAGE_POOL_2D: 0}
FIXED = {BO.SOFTMAX: {8: (1 / 256, -128), 16: (1 / 32768, 0)}, BO.LOGISTIC: {8: (1 / 256, -128), 16: (1 / 32768, 0)}, BO.TANH: {8: (1 / 128, 0), 16: (1 / 32768, 0)}}
SUPPORTED = {BO.FULLY_CONNECTED, BO.BATCH_MATMUL, BO.CONV_2D, BO.DEPTHWISE_CONV_2D, BO.TRANSPOSE_CONV, BO.EMBEDDING_LOOKUP, BO.SOFTMAX, BO.AVERAGE_POOL_2D, BO.RESHAPE, BO.TANH, BO.TRANSPOSE, BO.GELU, BO.ADD, BO.SUB, BO.MUL, BO.MEAN, BO.RSQRT, BO.CONCATENATION, BO.STRIDED_SLICE, BO.SPLIT, BO.LOGISTIC}
def zs(mn, mx, bits, sym):
    mn = float(np.min(mn)); mx = float(np.max(mx)); qmax = 2 ** (bits - 1) - 1; qmin = -2 ** (bits - 1)
    if sym:
        b = max(abs(mn), abs(mx), 1e-4); return b / qmax, 0
    lo, hi = min(mn, 0.0), max(mx, 0.0); rng = max(hi - lo, 1e-4); sc = rng / (qmax - qmin); return sc, int(np.rint(qmin - lo / sc))
def close(p, q): return p is not None and q is not None and abs(p[0] - q[0]) <= 1e-5 * abs(q[0]) and p[1] == q[1]
def run(seed, rec, bits, sym, stats):
    m = rand_model(seed, allow_unsupported=True, allow_emb=False); it = iu.create_tfl_interpreter(m); rr = it.get_signature_runner(); r2 = np.random.default_rng(seed)
    data = [{k: r2.normal(size=dd['shape']).astype(np.float32) for k, dd in rr.get_input_details().items()} for _ in range(2)]
    iu.invoke_interpreter_signature(it, data[0])
    qt = quantizer.Quantizer(m, R + rec); cal = qt.calibrate(data); S = copy.deepcopy(cal)
    qm = bytes(qt.quantize(cal).quantized_model)
    fm = fu.read_model_from_bytearray(bytearray(m)); fq = fu.read_model_from_bytearray(bytearray(qm))
    sg0, sg = fm.subgraphs[0], fq.subgraphs[0]; n0 = len(sg0.tensors)
    code = lambda mdl, op: mdl.operatorCodes[op.opcodeIndex].builtinCode
    is_const = lambda t: fm.buffers[sg0.tensors[t].buffer].data is not None if t < n0 else False
    # alias: inserted Q/DQ outputs -> root original tensor
    alias = {}
    orig_ops = [op for op in sg.operators if not (code(fq, op) in (BO.QUANTIZE, BO.DEQUANTIZE) and op.outputs[0] >= n0)]
    for op in sg.operators:
        if code(fq, op) in (BO.QUANTIZE, BO.DEQUANTIZE) and op.outputs[0] >= n0: alias[int(op.outputs[0])] = int(op.inputs[0])
    def root(t):
        while t in alias: t = alias[t]
        return t
    def params(t):
        q = sg.tensors[t].quantization
        if q is None or q.scale is None or len(q.scale) != 1: return None
        return (float(q.scale[0]), int(q.zeroPoint[0]))
    name = lambda t: sg0.tensors[t].name.decode()
    # effective stats propagation in op order over the ORIGINAL graph
    eff = {}
    def own(t): return zs(S[name(t)]['min'], S[name(t)]['max'], bits, sym) if name(t) in S and S[name(t)] else None
    for op0 in sg0.operators:
        c = code(fm, op0)
        if c not in SUPPORTED or c == BO.EMBEDDING_LOOKUP: continue
        if c in SAME_IN:
            src = int(op0.inputs[SAME_IN[c]])
            for o in op0.outputs: eff[int(o)] = eff.get(src) or own(src)
        elif c in FIXED:
            eff[int(op0.outputs[0])] = FIXED[c][bits]
    if len(orig_ops) != len(sg0.operators): stats['skeleton_mismatch'] += 1; return
    for op0, op in zip(sg0.operators, orig_ops):
        c = code(fm, op0)
        if c not in SUPPORTED or c == BO.EMBEDDING_LOOKUP: continue
        def operand_ok(kind, pos, t_actual, t0):
            if t0 == -1 or sg0.tensors[t0].type != 0 or is_const(t0): return
            p = params(int(t_actual)); exp = []
            if kind == 'out':
                if c in FIXED: exp = [FIXED[c][bits]]
                elif c in SAME_IN:
                    src0 = int(op0.inputs[SAME_IN[c]]); exp = [params(int(op.inputs[SAME_IN[c]]))]
                else: exp = [own(t0)]
            else:
                if c == BO.CONCATENATION: exp = [params(int(op.outputs[0]))]
                else: exp = [own(t0), eff.get(t0)]
            stats['operands'] += 1
            if not any(close(p, e) for e in exp if e): stats['mismatch'] += 1; stats[f'mismatch_{kind}_{c}'] += 1; ex.setdefault(f'{kind}_{c}', (seed, name(t0), p, exp))
        for pos, (ta, t0) in enumerate(zip(op.inputs, op0.inputs)): operand_ok('in', pos, ta, int(t0))
        for pos, (ta, t0) in enumerate(zip(op.outputs, op0.outputs)): operand_ok('out', pos, ta, int(t0))
ex = {}
for rec, bits, sym in [('default_a8w8_recipe.json', 8, False), ('default_a16w8_recipe.json', 16, True)]:
    stats = collections.Counter()
    for seed in range(600):
        try: run(seed, rec, bits, sym, stats)
        except Exception as e: stats['exc_' + type(e).__name__] += 1
    print(rec, dict(stats)); print(ex); ex.clear()
