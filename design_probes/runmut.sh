#!/bin/bash
# usage: runmut.sh <name> <file> <python-expr-old> <python-expr-new> <probe cmd...>
name=$1; file=$2; old=$3; new=$4; shift 4
rm -rf /tmp/mut/repo && cp -r /tmp/scratch_repo /tmp/mut/repo
/venv/bin/python - "$file" "$old" "$new" <<'PY'
import sys
f, old, new = sys.argv[1:4]; p = '/tmp/mut/repo/' + f; s = open(p).read()
assert s.count(old) >= 1, ('pattern not found', old); open(p, 'w').write(s.replace(old, new, 1))
PY
[ $? -ne 0 ] && { echo "MUT $name: pattern not found"; exit 1; }
cd /tmp/mut/repo && /venv/bin/python -m pytest -q -p no:cacheprovider --timeout=900 --continue-on-collection-errors --junitxml=/tmp/mut/junit.xml ai_edge_quantizer > /tmp/mut/pytest.out 2>&1
/venv/bin/python - <<'PY'
import json, xml.etree.ElementTree as ET
base = set(json.load(open('/root/.vp/BASELINE.json'))['stable_pass'])
t = ET.parse('/tmp/mut/junit.xml'); passed = set()
for tc in t.iter('testcase'):
    n = f"{tc.get('classname')}::{tc.get('name')}"
    if not any(c.tag in ('failure', 'error', 'skipped') for c in tc): passed.add(n)
print('  tests: baseline-passing now failing =', len(base - passed), sorted(base - passed)[:3])
PY
echo "  probe:"; cd /tmp/mut/repo && AEQ_REPO=/tmp/mut/repo PYTHONPATH=/tmp/mut/repo TF_CPP_MIN_LOG_LEVEL=3 "$@" 2>&1 | grep -v -E "^(WARNING|I0000|W0000|To enable)" | tail -6
