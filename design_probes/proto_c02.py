import numpy as np, sys, collections, os
sys.path.insert(0, '/verif/design_probes')
from rgen import rand_model
import skeleton
from ai_edge_quantizer import quantizer
from ai_edge_quantizer.utils import tfl_interpreter_utils as iu
from tensorflow.lite.tools import flatbuffer_utils as fu
R = os.environ.get('AEQ_REPO', '/repo') + '/ai_edge_quantizer/recipes/'
stats = collections.Counter(); ex = {}
for seed in range(int(sys.argv[1]), int(sys.argv[2])):
    try:
        m = rand_model(seed, n_sub=1 + seed % 2); it = iu.create_tfl_interpreter(m)
        if any(not sg.operators for sg in fu.read_model_from_bytearray(bytearray(m)).subgraphs): continue
        keys = list(it.get_signature_list()); data = {}
        for k in keys:
            rr = it.get_signature_runner(k); r2 = np.random.default_rng(seed)
            data[k] = [{a: (r2.integers(0, 5, size=dd['shape']).astype(np.int32) if dd['dtype'] == np.int32 else r2.normal(size=dd['shape']).astype(np.float32)) for a, dd in rr.get_input_details().items()} for _ in range(2)]
            iu.invoke_interpreter_signature(it, data[k][0], k)
    except Exception as e: stats['gen_fail'] += 1; continue
    for rec in ['default_a8w8_recipe.json', 'default_af32w8float_recipe.json', 'dynamic_wi8_afp32_recipe.json']:
        try:
            qt = quantizer.Quantizer(m, R + rec); cal = None
            if qt.need_calibration:
                for k in keys: cal = qt.calibrate(data[k], k, cal)
            qm = bytes(qt.quantize(cal).quantized_model)
        except Exception as e: stats[rec[:-12] + ' raised ' + type(e).__name__] += 1; continue
        errs, maps = skeleton.analyse(m, qm)
        kinds = tuple(sorted(set(e[0] for e in errs)))
        stats[(rec[:-12], kinds)] += 1; ex.setdefault((rec[:-12], kinds), seed)
for k, v in sorted(stats.items(), key=str): print(v, k, ex.get(k))
