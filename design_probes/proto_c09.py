import numpy as np, sys, copy
sys.path.insert(0, '/verif/design_probes')
from rgen import rand_model
from ai_edge_quantizer import quantizer
from ai_edge_quantizer.utils import tfl_interpreter_utils as iu
from ai_edge_litert import interpreter as tfl
R = '/repo/ai_edge_quantizer/recipes/'
def own_stats(m, data):
    it = tfl.Interpreter(model_content=m, experimental_preserve_all_tensors=True, experimental_op_resolver_type=tfl.OpResolverType.BUILTIN_WITHOUT_DEFAULT_DELEGATES); it.allocate_tensors()
    r = it.get_signature_runner(); ema = {}
    for d in data:
        r(**d)
        for t in it.get_tensor_details():
            if not t['name']: continue
            try: v = it.get_tensor(t['index'])
            except ValueError: continue
            mn, mx = float(np.min(v)), float(np.max(v)) if v.size else (None, None)
            if t['name'] not in ema: ema[t['name']] = [mn, mx]
            else: ema[t['name']] = [0.95 * ema[t['name']][0] + 0.05 * mn, 0.95 * ema[t['name']][1] + 0.05 * mx]
    return ema
def eq(a, b): return all(np.array_equal(a[k][f], b[k][f]) for k in a for f in ('min', 'max')) and a.keys() == b.keys()
bad = 0; n = 0; nt = 0
for seed in range(300):
    try:
        m = rand_model(seed); it = iu.create_tfl_interpreter(m); rr = it.get_signature_runner(); r2 = np.random.default_rng(seed)
        data = [{k: (r2.integers(0, 5, size=dd['shape']).astype(np.int32) if dd['dtype'] == np.int32 else (r2.normal(size=dd['shape']) * r2.choice([0.1, 1, 10])).astype(np.float32)) for k, dd in rr.get_input_details().items()} for _ in range(4)]
        iu.invoke_interpreter_signature(it, data[0])
    except Exception: continue
    qt = quantizer.Quantizer(m, R + 'default_a8w8_recipe.json')
    full = qt.calibrate(data); ref = own_stats(m, data); n += 1
    from tensorflow.lite.tools import flatbuffer_utils
    fm = flatbuffer_utils.read_model_from_bytearray(bytearray(m)); consts = {t.name.decode() for t in fm.subgraphs[0].tensors if fm.buffers[t.buffer].data is not None}
    for k, v in full.items():
        if k in consts or not v: continue
        nt += 1
        if not (np.allclose(v['min'], ref[k][0], rtol=1e-5, atol=1e-7) and np.allclose(v['max'], ref[k][1], rtol=1e-5, atol=1e-7)): bad += 1; print('MISMATCH', seed, k, v, ref[k])
    for cut in (1, 2, 3):
        p1 = qt.calibrate(data[:cut]); snap = copy.deepcopy(p1); p2 = qt.calibrate(data[cut:], previous_calibration_result=p1)
        if not eq(p2, full): bad += 1; print('RESUME MISMATCH', seed, cut)
        if not eq(p1, snap): bad += 1; print('PREV MUTATED', seed, cut)
print('models', n, 'runtime tensors', nt, 'bad', bad)
