"""Prototype C12: recipe JSON round trip."""
import numpy as np, sys, json, collections, os, glob
sys.path.insert(0, '/verif/design_probes')
from proto_c03 import CFGS, OP
from ai_edge_quantizer import quantizer, qtyping, algorithm_manager, recipe
import absl.logging; absl.logging.set_verbosity(absl.logging.ERROR)
REPO = os.environ.get('AEQ_REPO', '/repo')
dummy = open(REPO + '/ai_edge_quantizer/tests/models/single_fc.tflite', 'rb').read()
stats = collections.Counter(); ex = {}
def note(k, w): stats[k] += 1; ex.setdefault(k, w)
for f in sorted(glob.glob(REPO + '/ai_edge_quantizer/recipes/*.json')):
    try:
        qt = quantizer.Quantizer(dummy, f); r = qt.get_quantization_recipe(); src = json.load(open(f))
        note('shipped_loads', f)
        if json.loads(json.dumps(r)) != src: note('SHIPPED_REEXPORT_DIFFERS', (os.path.basename(f)))
    except Exception as e: note('SHIPPED_LOAD_FAILS', (os.path.basename(f), type(e).__name__, str(e)[:80]))
rng = np.random.default_rng(0); sels = [OP.ALL_SUPPORTED, OP.FULLY_CONNECTED, OP.CONV_2D, OP.TANH, OP.INPUT, OP.OUTPUT, OP.EMBEDDING_LOOKUP]
names = list(CFGS) + ['default_none']
for trial in range(3000):
    qt = quantizer.Quantizer(dummy)
    for _ in range(int(rng.integers(1, 6))):
        rx = str(rng.choice(['.*', 'a/', 'b$', '^c'])); sel = sels[int(rng.integers(len(sels)))]; name = str(rng.choice(names))
        alg, cfg = (algorithm_manager.AlgorithmName.MIN_MAX_UNIFORM_QUANT, None) if name == 'default_none' else CFGS[name]
        if name == 'noq' and rng.random() < 0.3: cfg = CFGS['wo8'][1]   # no_quantize with a config attached
        as_str = rng.random() < 0.3
        try: qt.update_quantization_recipe(rx, sel.value if as_str else sel, cfg, alg.value if as_str else alg)
        except ValueError: pass
    r = qt.get_quantization_recipe()
    if not r: continue
    stats['recipes'] += 1
    try: js = json.loads(json.dumps(r))
    except Exception as e: note('JSON_FAILS', (type(e).__name__, str(e)[:60])); continue
    try: q2 = quantizer.Quantizer(dummy, js)
    except Exception as e: note('RELOAD_FAILS ' + type(e).__name__, (str(e)[:60], js)); continue
    r2 = q2.get_quantization_recipe()
    if json.loads(json.dumps(r2)) != js: note('RELOAD_UNEQUAL', (js, json.loads(json.dumps(r2))))
    for op in [OP.FULLY_CONNECTED, OP.TANH, OP.CONV_2D, OP.INPUT]:
        for sc in ['a/x;', 'b;', 'c/b;', 'zz;']:
            if qt._recipe_manager.get_quantization_configs(op, sc) != q2._recipe_manager.get_quantization_configs(op, sc): note('RESOLVE_DIFFERS', (js, op.value, sc))
for k, v in sorted(stats.items()): print(v, k, str(ex.get(k, ''))[:400])
