import subprocess, sys, os, json
from concurrent.futures import ThreadPoolExecutor
import numpy as np
lo, hi, rec, n = int(sys.argv[1]), int(sys.argv[2]), sys.argv[3], 16
REPO = os.environ.get('AEQ_REPO', '/repo'); env = dict(os.environ, PYTHONPATH=REPO, TF_CPP_MIN_LOG_LEVEL='3')
def sh(i):
    a = lo + (hi - lo) * i // n; b = lo + (hi - lo) * (i + 1) // n
    p = subprocess.run(['/venv/bin/python', '/verif/design_probes/srq_error_child.py', str(a), str(b), rec], capture_output=True, text=True, env=env, cwd=REPO)
    if p.returncode: return []
    return json.loads(p.stdout.strip().splitlines()[-1])
rows = []
with ThreadPoolExecutor(n) as t:
    for r in t.map(sh, range(n)): rows += r
a = np.array([r[2:] for r in rows]); print(len(rows), 'outputs')
steps, rel = a[:, 0], a[:, 1]
for q in [50, 90, 99, 99.9, 100]: print('pct', q, 'err/step', np.percentile(steps, q), 'err/amax', np.percentile(rel, q))
# combined bound residual: err - 3*scale - alpha*amax
for alpha in [0.02, 0.05, 0.1, 0.2]:
    res = a[:, 2] - 16 * a[:, 3] - alpha * a[:, 4]; print('alpha', alpha, 'violations', int((res > 0).sum()), [rows[i][:2] for i in np.argsort(-res)[:5] if res[i] > 0])
bad = [rows[i] for i in range(len(rows)) if rows[i][7] > 1e-3 and rows[i][8] == 0]
print('constant-output cases', len(bad), bad[:5])
