import subprocess, sys, os, json, collections, time
from concurrent.futures import ThreadPoolExecutor
lo, hi, n = int(sys.argv[1]), int(sys.argv[2]), 16
REPO = os.environ.get('AEQ_REPO', '/repo'); env = dict(os.environ, PYTHONPATH=REPO, TF_CPP_MIN_LOG_LEVEL='3')
def shard(i):
    a = lo + (hi - lo) * i // n; b = lo + (hi - lo) * (i + 1) // n; stats = collections.Counter(); ex = {}; cur = a; skip = set()
    while cur < b:
        p = subprocess.run(['/venv/bin/python', '/verif/design_probes/survey2_child.py', str(cur), str(b), ','.join(skip)], capture_output=True, text=True, env=env, cwd=REPO)
        last = None
        for line in p.stdout.splitlines():
            if line.startswith('CASE '): last = line.split()[1]
            elif line.startswith('STAT '):
                d = json.loads(line[5:]); [stats.update({k: v}) for k, v in d['stats'].items()]; [ex.setdefault(k, v) for k, v in d['ex'].items()]
            elif line.startswith('DONE '): cur = int(line.split()[1]) + 1
        if p.returncode != 0 and last:
            stats[f'ABORT rc={p.returncode}'] += 1; ex.setdefault(f'ABORT rc={p.returncode}', last); skip.add(last); cur = int(last.split(':')[0])
        elif p.returncode != 0: stats['CHILD_FAIL ' + p.stderr[-200:]] += 1; break
        else: cur = b
    return stats, ex
t0 = time.time(); stats = collections.Counter(); ex = {}
with ThreadPoolExecutor(n) as tp:
    for s, e in tp.map(shard, range(n)): stats.update(s); [ex.setdefault(k, v) for k, v in e.items()]
print('time', round(time.time() - t0, 1))
for k, v in sorted(stats.items()): print(v, '|', k, '|', str(ex.get(k))[:200])
