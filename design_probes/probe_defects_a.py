import numpy as np, sys, copy, json, traceback
sys.path.insert(0, '/verif/design_probes')
from mb import *
from ai_edge_quantizer import quantizer, recipe, qtyping
from ai_edge_quantizer.utils import tfl_interpreter_utils as iu
from ai_edge_quantizer.algorithms.uniform_quantize import uniform_quantize_tensor as uqt
import inspect_model
rng = np.random.default_rng(0)
R = '/repo/ai_edge_quantizer/recipes/'
def fc_model(nops=1, out_also=False):
    b = B(); sg = b.subgraph('main')
    x = b.act(sg, 'x', [1, 8]); cur = x; outs=[]
    for i in range(nops):
        w = b.const(sg, f'w{i}', rng.normal(size=(8, 8)).astype(np.float32)); bias = b.const(sg, f'b{i}', rng.normal(size=(8,)).astype(np.float32))
        y = b.act(sg, f'y{i}', [1, 8]); o, ot = fc_opts(); b.op(sg, BO.FULLY_CONNECTED, [cur, w, bias], [y], o, ot); cur = y
    sg.inputs = [x]; sg.outputs = [cur]
    b.signature('serving_default', 0, [('x', x)], [('y', cur)])
    return b.build()
SRQ8 = qtyping.OpQuantizationConfig(activation_tensor_config=qtyping.TensorQuantizationConfig(8, False), weight_tensor_config=qtyping.TensorQuantizationConfig(8, True, qtyping.QuantGranularity.CHANNELWISE), compute_precision=qtyping.ComputePrecision.INTEGER)
xin = rng.normal(size=(1, 8)).astype(np.float32)
print('--- 1. single FC, only FC quantized (producer idx 0, graph output)')
m = fc_model(1)
qt = quantizer.Quantizer(m); qt.update_quantization_recipe('.*', qtyping.TFLOperationName.FULLY_CONNECTED, SRQ8)
cal = qt.calibrate([{'x': xin}]); res = qt.quantize(cal)
inspect_model.dump(bytes(res.quantized_model))
f = iu.invoke_interpreter_signature(iu.create_tfl_interpreter(m), {'x': xin}); q = iu.invoke_interpreter_signature(iu.create_tfl_interpreter(bytes(res.quantized_model)), {'x': xin}); print(f, q)
print('--- 2. dequantize wrap')
zp, sc = uqt.tensor_zp_scale_from_min_max(np.array([[-1.0]], dtype=np.float32), np.array([[3.0]], dtype=np.float32), 8, False)
p = qtyping.UniformQuantParams(8, None, sc, zp, symmetric=False)
xs = np.array([[-1.0, 0.0, 1.0, 3.0]], dtype=np.float32); qv = uqt.uniform_quantize(xs, p); print(zp, zp.dtype, sc, qv, qv.dtype, uqt.uniform_dequantize(qv, p))
print('--- 3. scope regex y0$')
m = fc_model(2)
for rx in ['y0$', 'y0;', '^y0$', 'y0']:
    qt = quantizer.Quantizer(m); qt.update_quantization_recipe(rx, qtyping.TFLOperationName.FULLY_CONNECTED, SRQ8)
    try:
        cal = qt.calibrate([{'x': xin}]); print(rx, 'cal keys', sorted(cal)); res = qt.quantize(cal)
        from ai_edge_quantizer.utils import tfl_flatbuffer_utils as fu
        mm = fu.read_model(bytes(res.quantized_model)); print('  types', [(t.name, t.type) for t in mm.subgraphs[0].tensors])
    except Exception as e: print(rx, 'EXC', type(e).__name__, str(e)[:150])
print('--- 5. quantize mutates calibration result')
b = B(); sg = b.subgraph('main'); x = b.act(sg, 'x', [1, 8]); w = b.const(sg, 'w', rng.normal(size=(8, 8)).astype(np.float32)); y = b.act(sg, 'y', [1, 8]); z = b.act(sg, 'z', [1,8]); sh = b.const(sg, 'shape', np.array([2,4], dtype=np.int32)); r = b.act(sg, 'r', [2,4])
o, ot = fc_opts(); b.op(sg, BO.FULLY_CONNECTED, [x, w, -1], [y], o, ot); b.op(sg, BO.LOGISTIC, [y], [z]); b.op(sg, BO.RESHAPE, [z, sh], [r]); sg.inputs=[x]; sg.outputs=[r]; b.signature('serving_default', 0, [('x', x)], [('r', r)]); m = b.build()
qt = quantizer.Quantizer(m, R + 'default_a8w8_recipe.json'); cal = qt.calibrate([{'x': xin}]); before = copy.deepcopy(cal); res = qt.quantize(cal)
for k in before:
    if not all(np.array_equal(before[k][kk], cal[k][kk]) for kk in before[k]) or before[k].keys() != cal[k].keys(): print('  MUTATED', k, before[k], cal[k])
print('--- 6. sample recipe load')
try:
    quantizer.Quantizer(m, R + 'sample_advanced_usage_recipe.json'); print('loaded')
except Exception as e: print('EXC', type(e).__name__, e)
