"""Parent: run e7 child over seed ranges, restart after aborts; aggregate."""
import subprocess, sys, os, re, collections, json, time
from concurrent.futures import ThreadPoolExecutor
lo, hi, nshard = int(sys.argv[1]), int(sys.argv[2]), int(sys.argv[3])
REPO = os.environ.get('AEQ_REPO', '/repo'); env = dict(os.environ, PYTHONPATH=REPO, TF_CPP_MIN_LOG_LEVEL='3')
def shard(i):
    a = lo + (hi - lo) * i // nshard; b = lo + (hi - lo) * (i + 1) // nshard
    stats = collections.Counter(); ex = {}
    cur = a; skip = set()
    while cur < b:
        p = subprocess.run(['/venv/bin/python', '/verif/design_probes/survey_child.py', str(cur), str(b), ','.join(f'{s}:{r}' for s, r in skip)], capture_output=True, text=True, env=env, cwd=REPO)
        last = None
        for line in p.stdout.splitlines():
            if line.startswith('CASE '): last = line.split()[1:3]
            elif line.startswith('STAT '):
                d = json.loads(line[5:]); 
                for k, v in d['stats'].items(): stats[k] += v
                for k, v in d['ex'].items(): ex.setdefault(k, v)
            elif line.startswith('DONE '): cur = int(line.split()[1]) + 1
        if p.returncode != 0:
            key = f'{last[1][:-12]} ABORT rc={p.returncode} ' + (p.stderr.strip().splitlines() or [''])[-1][:80]
            stats[key] += 1; ex.setdefault(key, int(last[0])); skip.add((int(last[0]), last[1]))
            # resume from the crashing seed, skipping that (seed, recipe)
            cur = int(last[0])
        else: cur = b
    return stats, ex
t0 = time.time()
with ThreadPoolExecutor(nshard) as tp: res = list(tp.map(shard, range(nshard)))
stats = collections.Counter(); ex = {}
for s, e in res:
    stats.update(s)
    for k, v in e.items(): ex.setdefault(k, v)
print('time', time.time() - t0)
for k, v in sorted(stats.items()): print(v, '|', k, '| e.g. seed', ex.get(k))
