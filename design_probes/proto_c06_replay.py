"""Prototype C06 (b'): per-operator replay on preserved tensors of the quantized run (dynamic-range recipes, multi-op graphs)."""
import numpy as np, sys, collections, copy, os
sys.path.insert(0, '/verif/design_probes')
from mb import BO, S
from rgen import rand_model
import skeleton
from proto_c06 import decode
from ai_edge_quantizer import quantizer
from ai_edge_quantizer.utils import tfl_interpreter_utils as iu
from ai_edge_litert import interpreter as tfl
from tensorflow.lite.tools import flatbuffer_utils as fu
TT = S.TensorType
def single_op_model(ms, sg, op, const_override):
    """Build a float model with just `op`; runtime operands become inputs; constants keep (possibly overridden) data."""
    m = S.ModelT(); m.version = 3; m.buffers = [S.BufferT()]; m.operatorCodes = [copy.deepcopy(ms.operatorCodes[op.opcodeIndex])]; m.subgraphs = [S.SubGraphT()]; g = m.subgraphs[0]
    g.tensors = []; g.operators = []; g.inputs = []; g.outputs = []; g.name = b'replay'; remap = {}
    for t in list(op.inputs) + list(op.outputs):
        t = int(t)
        if t == -1 or t in remap: continue
        src = sg.tensors[t]; nt = S.TensorT(); nt.name = src.name; nt.shape = list(src.shape) if src.shape is not None else []; nt.type = src.type
        data = const_override.get(t, ms.buffers[src.buffer].data)
        b = S.BufferT()
        if data is not None: b.data = np.frombuffer(np.asarray(data).tobytes(), dtype=np.uint8)
        m.buffers.append(b); nt.buffer = len(m.buffers) - 1; g.tensors.append(nt); remap[t] = len(g.tensors) - 1
        if data is None and t in [int(x) for x in op.inputs]: g.inputs.append(remap[t])
    o = copy.deepcopy(op); o.opcodeIndex = 0; o.inputs = [(-1 if int(t) == -1 else remap[int(t)]) for t in op.inputs]; o.outputs = [remap[int(t)] for t in op.outputs]
    g.operators = [o]; g.outputs = list(o.outputs)
    return bytes(fu.convert_object_to_bytearray(m)), remap
def run_all(model, x):
    it = tfl.Interpreter(model_content=model, experimental_preserve_all_tensors=True, experimental_op_resolver_type=tfl.OpResolverType.BUILTIN_WITHOUT_DEFAULT_DELEGATES); it.allocate_tensors()
    it.get_signature_runner()(**x); out = {}
    for t in it.get_tensor_details():
        try: out[t['index']] = it.get_tensor(t['index'])
        except ValueError: pass
    return out
R = os.environ.get('AEQ_REPO', '/repo') + '/ai_edge_quantizer/recipes/'
stats = collections.Counter(); worst = collections.defaultdict(float); ex = {}
for seed in range(int(sys.argv[1]), int(sys.argv[2])):
    rng = np.random.default_rng(seed)
    try:
        m = rand_model(seed); it = iu.create_tfl_interpreter(m); fm = fu.read_model_from_bytearray(bytearray(m)); sg0 = fm.subgraphs[0]
        if not sg0.operators: continue
        rr = it.get_signature_runner(); x = {a: (rng.integers(0, 5, size=dd['shape']).astype(np.int32) if dd['dtype'] == np.int32 else rng.normal(size=dd['shape']).astype(np.float32)) for a, dd in rr.get_input_details().items()}
        iu.invoke_interpreter_signature(it, x)
    except Exception: continue
    qt = quantizer.Quantizer(m, R + 'dynamic_wi8_afp32_recipe.json')
    try: qm = bytes(qt.quantize().quantized_model)
    except Exception: stats['quant_exc'] += 1; continue
    errs, maps = skeleton.analyse(m, qm)
    if [e for e in errs if not e[0].startswith('sig_')]: stats['skeleton_broken'] += 1; continue
    fq = fu.read_model_from_bytearray(bytearray(qm)); sgq = fq.subgraphs[0]; vals = run_all(qm, x); mp = maps[0]
    for k, op0 in enumerate(sg0.operators):
        opq = sgq.operators[mp['kept'][k]]; code = skeleton.code(fm, op0)
        # constants as the quantized model stores them (dequantized), keyed by ORIGINAL tensor index
        override = {}; drq = False
        for t0, t1 in zip(op0.inputs, opq.inputs):
            t0, t1 = int(t0), int(t1)
            if t0 == -1: continue
            tq = sgq.tensors[t1]
            if tq.type in (TT.INT8, TT.INT4) and fq.buffers[tq.buffer].data is not None and sg0.tensors[t0].type == TT.FLOAT32:
                override[t0] = decode(tq, fq.buffers[tq.buffer]); drq = True
        try: rep, remap = single_op_model(fm, sg0, op0, override)
        except Exception as e: stats['replay_build_exc'] += 1; ex.setdefault('build', (seed, k, str(e)[:80])); continue
        itr = tfl.Interpreter(model_content=rep, experimental_op_resolver_type=tfl.OpResolverType.BUILTIN_WITHOUT_DEFAULT_DELEGATES)
        try:
            itr.allocate_tensors()
            for t0, t1 in zip(op0.inputs, opq.inputs):
                t0, t1 = int(t0), int(t1)
                if t0 != -1 and remap[t0] in [d['index'] for d in itr.get_input_details()]: itr.set_tensor(remap[t0], vals[t1])
            itr.invoke()
        except Exception as e: stats['replay_run_exc'] += 1; ex.setdefault('run', (seed, k, code, str(e)[-80:])); continue
        for t0, t1 in zip(op0.outputs, opq.outputs):
            ref = itr.get_tensor(remap[int(t0)]).astype(np.float64); got = vals[int(t1)].astype(np.float64)
            A = max(1.0, float(np.max(np.abs(ref)))); e = float(np.max(np.abs(ref - got))) / A if ref.size else 0.0
            kind = 'drq' if drq else 'float'; worst[kind] = max(worst[kind], e); stats['ops_' + kind] += 1
            if not drq and e > 1e-5: stats['FLOAT_OP_MISMATCH'] += 1; ex.setdefault('float_mismatch', (seed, k, code, e))
            if drq and e > 0.05: stats['DRQ_OP_LARGE'] += 1; ex.setdefault('drq_large', (seed, k, code, e))
print(dict(stats), dict(worst)); print(ex)
