import numpy as np, sys
sys.path.insert(0, '/verif/design_probes')
from rgen import rand_model
import inspect_model, fbcheck
from ai_edge_quantizer import quantizer
from ai_edge_quantizer.utils import tfl_interpreter_utils as iu
seed = int(sys.argv[1]); rec = sys.argv[2]
m = rand_model(seed, allow_unsupported=False, allow_emb=False, allow_bmm_const=False)
it = iu.create_tfl_interpreter(m); rr = it.get_signature_runner(); r2 = np.random.default_rng(3)
d = [{k: r2.normal(size=dd['shape']).astype(np.float32) for k, dd in rr.get_input_details().items()}]
fo = iu.invoke_interpreter_signature(it, d[0])
qt = quantizer.Quantizer(m, '/repo/ai_edge_quantizer/recipes/' + rec); cal = qt.calibrate(d)
qm = bytes(qt.quantize(cal).quantized_model); inspect_model.dump(qm); print(fbcheck.check(qm))
it2 = iu.create_tfl_interpreter(qm); qo = iu.invoke_interpreter_signature(it2, d[0])
for k in fo: print(k, np.round(fo[k].ravel()[:6], 3), qo[k].ravel()[:6])
# per-tensor comparison
fd = {t['name']: it.get_tensor(t['index']) for t in it.get_tensor_details() if t['name']}
for t in it2.get_tensor_details():
    if t['name'] in fd and len(t['quantization_parameters']['scales']) == 1 and fd[t['name']].dtype == np.float32:
        try: q = it2.get_tensor(t['index'])
        except Exception: continue
        sc = t['quantization_parameters']['scales'][0]; zp = t['quantization_parameters']['zero_points'][0]
        deq = (q.astype(np.float64) - zp) * sc; f = fd[t['name']]
        print(f"  {t['name']:30s} err/step {np.max(np.abs(deq - f)) / sc:10.2f}  frange [{f.min():.3f},{f.max():.3f}] qrange [{q.min()},{q.max()}]")
