"""Prototype C13 (b): every accepted (op, config) pair on single-op models: quantize, load, run, compare with float."""
import numpy as np, sys, json, os, collections, itertools
sys.path.insert(0, '/verif/design_probes')
from mb import *; from ops import G
from ai_edge_quantizer import quantizer, qtyping, algorithm_manager
from ai_edge_quantizer.utils import tfl_interpreter_utils as iu
import absl.logging; absl.logging.set_verbosity(absl.logging.ERROR)
OP = qtyping.TFLOperationName; T = qtyping.TensorQuantizationConfig; C = qtyping.OpQuantizationConfig
GR = qtyping.QuantGranularity; D = qtyping.TensorDataType; CP = qtyping.ComputePrecision; ALG = algorithm_manager.AlgorithmName
def mk(fn, in_shape, seed, ids=False):
    rng = np.random.default_rng(seed); b = B(); g = G(b, 'main', '', rng)
    x = g.inp(in_shape, S.TensorType.INT32 if ids else S.TensorType.FLOAT32, name='x'); o = fn(g, x); g.finish(o if isinstance(o, list) else [o], 'serving_default'); return b.build()
CAT = {
 'FULLY_CONNECTED': [(lambda g, x: g.fc(x, 5), (3, 16)), (lambda g, x: g.fc(x, 5, bias=False, keep=True), (2, 3, 16))],
 'CONV_2D': [(lambda g, x: g.conv(x, 3), (2, 5, 5, 2))], 'DEPTHWISE_CONV_2D': [(lambda g, x: g.dwconv(x, 2), (2, 5, 5, 2))],
 'CONV_2D_TRANSPOSE': [(lambda g, x: g.tconv(x, 3), (2, 3, 3, 2)), (lambda g, x: g.tconv(x, 3, bias=False), (2, 3, 3, 2))],
 'BATCH_MATMUL': [(lambda g, x: g.bmm(x), (2, 3, 8)), (lambda g, x: g.bmm(x, adj_y=True), (2, 3, 8)), (lambda g, x: g.bmm(x, g.relu(x), adj_y=True), (2, 3, 8))],
 'EMBEDDING_LOOKUP': [(lambda g, x: g.emb(x, 10, 4), (3,), True)],
 'AVERAGE_POOL_2D': [(lambda g, x: g.avgpool(x), (1, 4, 4, 2))], 'RESHAPE': [(lambda g, x: g.reshape(x, [2, 4]), (1, 8))],
 'SOFTMAX': [(lambda g, x: g.softmax(x), (2, 8))], 'TANH': [(lambda g, x: g.tanh(x), (2, 8))], 'LOGISTIC': [(lambda g, x: g.logistic(x), (2, 8))],
 'GELU': [(lambda g, x: g.gelu(x), (2, 8))], 'RSQRT': [(lambda g, x: g.rsqrt(g.add(g.logistic(x), g.const('h', np.full((1,), 0.5, np.float32)))), (2, 8))],
 'TRANSPOSE': [(lambda g, x: g.transpose(x, [1, 0]), (2, 8))],
 'ADD': [(lambda g, x: g.add(x, g.relu(x)), (2, 8)), (lambda g, x: g.add(x, g.const('c', g.w((8,)))), (2, 8))],
 'SUB': [(lambda g, x: g.sub(x, g.relu(x)), (2, 8)), (lambda g, x: g.sub(x, g.const('c', g.w((8,)))), (2, 8))],
 'MUL': [(lambda g, x: g.mul(x, g.relu(x)), (2, 8)), (lambda g, x: g.mul(x, g.const('c', g.w((8,)))), (2, 8))],
 'MEAN': [(lambda g, x: g.mean(x, [1]), (2, 8))], 'CONCATENATION': [(lambda g, x: g.concat([x, g.relu(x)], 1), (2, 8))],
 'STRIDED_SLICE': [(lambda g, x: g.strided_slice(x, [0, 1], [2, 7], [1, 2]), (2, 8))], 'SPLIT': [(lambda g, x: g.split(x, 1, 2), (2, 8))],
 'INPUT': [(lambda g, x: g.relu(x), (2, 8))], 'OUTPUT': [(lambda g, x: g.relu(x), (2, 8))],
}
acts = [None, (8, True), (8, False), (16, True), (16, False)]
lat = list(itertools.product(acts, [4, 8, 16], [True, False], [GR.TENSORWISE, GR.CHANNELWISE], [D.INT, D.FLOAT], [CP.INTEGER, CP.FLOAT], [False, True], [ALG.MIN_MAX_UNIFORM_QUANT, ALG.FLOAT_CASTING]))
def cfg_of(p):
    a, wb, ws, wg, wd, cp, ed, alg = p
    return C(activation_tensor_config=None if a is None else T(a[0], a[1]), weight_tensor_config=T(wb, ws, wg, wd), compute_precision=cp, explicit_dequantize=ed), alg
def short(p): a, wb, ws, wg, wd, cp, ed, alg = p; return f"a{a} w{wb}{'s' if ws else 'a'}{wg.value[0]}{wd.value[0]} {cp.value[:3]} ed{int(ed)} {alg.value[:5]}"
def child(opname):
    sel = OP(opname); dummy = mk(*CAT[opname][0][:2], 0, *(CAT[opname][0][2:]))
    for pi, p in enumerate(lat):
        try: cfg, alg = cfg_of(p)
        except ValueError: continue
        qt = quantizer.Quantizer(dummy)
        try: qt.update_quantization_recipe('.*', sel, cfg, alg)
        except ValueError: continue
        for vi, var in enumerate(CAT[opname]):
            fn, shp = var[0], var[1]; ids = len(var) > 2
            m = mk(fn, shp, 1, ids); rng = np.random.default_rng(5)
            data = [{'arg0': (rng.integers(0, 10, size=shp).astype(np.int32) if ids else rng.normal(size=shp).astype(np.float32))} for _ in range(2)]
            qt = quantizer.Quantizer(m); qt.update_quantization_recipe('.*', sel, cfg, alg)
            tag = f'{opname} v{vi} {short(p)}'
            try:
                cal = qt.calibrate(data) if qt.need_calibration else None; qm = bytes(qt.quantize(cal).quantized_model)
            except Exception as e: print('RES ' + json.dumps([tag, 'quantize_raised', type(e).__name__ + ': ' + str(e)[:80]]), flush=True); continue
            print('CALL ' + tag, flush=True)
            try:
                f = iu.invoke_interpreter_signature(iu.create_tfl_interpreter(m), data[0]); it = iu.create_tfl_interpreter(qm); q = iu.invoke_interpreter_signature(it, data[0])
            except Exception as e: print('RES ' + json.dumps([tag, 'interp_raised', str(e)[-100:]]), flush=True); continue
            worst = 0.0
            for (k, det) in it.get_signature_runner().get_output_details().items():
                qp = det['quantization_parameters']; v = q[k].astype(np.float64)
                if len(qp['scales']): v = (v - qp['zero_points'][0]) * qp['scales'][0]
                A = max(1e-6, float(np.max(np.abs(f[k])))); worst = max(worst, float(np.max(np.abs(v - f[k]))) / A)
            print('RES ' + json.dumps([tag, 'ok' if worst < 0.15 else 'GARBAGE', round(worst, 4)]), flush=True)
if __name__ == '__main__':
    if len(sys.argv) > 1: child(sys.argv[1]); sys.exit(0)
    import subprocess
    from concurrent.futures import ThreadPoolExecutor
    REPO = os.environ.get('AEQ_REPO', '/repo'); env = dict(os.environ, PYTHONPATH=REPO, TF_CPP_MIN_LOG_LEVEL='3')
    def run(opname):
        p = subprocess.run(['/venv/bin/python', __file__, opname], capture_output=True, text=True, env=env, cwd=REPO)
        res = [json.loads(l[4:]) for l in p.stdout.splitlines() if l.startswith('RES ')]
        if p.returncode != 0:
            calls = [l[5:] for l in p.stdout.splitlines() if l.startswith('CALL ')]; res.append([calls[-1] if calls else opname, 'ABORT', p.returncode])
        return res
    allres = []
    with ThreadPoolExecutor(16) as tp:
        for r in tp.map(run, list(CAT)): allres += r
    c = collections.Counter(r[1] for r in allres); print(dict(c))
    for r in allres:
        if r[1] != 'ok': print(r)
