"""Prototype C02 oracle: alias-collapse inserted Q/DQ ops and diff against the source graph."""
import numpy as np
from mb import BO, S
from tensorflow.lite.tools import flatbuffer_utils as fu
import flatbuffers
QDQ = (BO.QUANTIZE, BO.DEQUANTIZE)
def _opts_bytes(op):
    if op.builtinOptions is None: return None
    b = flatbuffers.Builder(64); off = op.builtinOptions.Pack(b); b.Finish(off); return bytes(b.Output())
def _custom(op): return None if op.customOptions is None else bytes(np.asarray(op.customOptions, dtype=np.uint8).tobytes())
def code(m, op): return m.operatorCodes[op.opcodeIndex].builtinCode
def analyse(src_bytes, out_bytes):
    """returns (errors, mapping) ; mapping[sg] = dict(alias=..., orig_ops=[(op_out_index)...])"""
    ms = fu.read_model_from_bytearray(bytearray(src_bytes)); mo = fu.read_model_from_bytearray(bytearray(out_bytes)); errs = []; maps = []
    if len(ms.subgraphs) != len(mo.subgraphs): return [('n_subgraphs',)], None
    for si, (a, b) in enumerate(zip(ms.subgraphs, mo.subgraphs)):
        n = len(a.tensors)
        if len(b.tensors) < n: errs.append(('tensor_dropped', si)); maps.append(None); continue
        alias = {}; kept = []; ins_ops = []
        for oi, op in enumerate(b.operators):
            c = code(mo, op)
            if c in QDQ and len(op.outputs) == 1 and int(op.outputs[0]) >= n and len(op.inputs) == 1:
                alias[int(op.outputs[0])] = int(op.inputs[0]); ins_ops.append(oi)
            else: kept.append(oi)
        def root(t, _d=0):
            while t in alias and _d < 1000: t = alias[t]; _d += 1
            return t
        for ti in range(n):
            ta, tb = a.tensors[ti], b.tensors[ti]
            if ta.name != tb.name: errs.append(('renamed', si, ti))
            if list(ta.shape if ta.shape is not None else []) != list(tb.shape if tb.shape is not None else []): errs.append(('reshaped', si, ti))
            if ta.buffer != tb.buffer: errs.append(('rebuffered', si, ti))
        for ti in range(n, len(b.tensors)):
            if ti not in alias: errs.append(('extra_tensor_not_from_inserted_op', si, ti)); continue
            r = root(ti)
            if r >= n: errs.append(('alias_root_not_original', si, ti)); continue
            if list(b.tensors[ti].shape) != list(a.tensors[r].shape): errs.append(('inserted_shape', si, ti))
        if len(kept) != len(a.operators): errs.append(('op_count', si, len(kept), len(a.operators)))
        else:
            for k, (oa, oi) in enumerate(zip(a.operators, kept)):
                ob = b.operators[oi]
                if code(ms, oa) != code(mo, ob): errs.append(('opcode', si, k)); continue
                if _opts_bytes(oa) != _opts_bytes(ob) or _custom(oa) != _custom(ob): errs.append(('options', si, k))
                if [int(x) for x in oa.outputs] != [int(x) for x in ob.outputs]: errs.append(('op_outputs', si, k))
                if [int(x) for x in oa.inputs] != [(-1 if int(x) == -1 else root(int(x))) for x in ob.inputs]: errs.append(('op_inputs', si, k, [int(x) for x in oa.inputs], [root(int(x)) if int(x) >= 0 else -1 for x in ob.inputs]))
        if [int(x) for x in a.inputs] != [root(int(x)) for x in b.inputs]: errs.append(('graph_inputs', si))
        if [int(x) for x in a.outputs] != [root(int(x)) for x in b.outputs]: errs.append(('graph_outputs', si, [int(x) for x in a.outputs], [root(int(x)) for x in b.outputs]))
        maps.append({'alias': alias, 'kept': kept, 'inserted': ins_ops, 'n': n})
    sa, so = ms.signatureDefs or [], mo.signatureDefs or []
    if len(sa) != len(so): errs.append(('n_signatures',))
    else:
        for x, y in zip(sa, so):
            if x.signatureKey != y.signatureKey or x.subgraphIndex != y.subgraphIndex: errs.append(('sig_key',)); continue
            ga, gb = ms.subgraphs[x.subgraphIndex], mo.subgraphs[y.subgraphIndex]
            for kind, ea, eb, la, lb in (('in', x.inputs, y.inputs, list(ga.inputs), list(gb.inputs)), ('out', x.outputs, y.outputs, list(ga.outputs), list(gb.outputs))):
                if [t.name for t in ea] != [t.name for t in eb]: errs.append(('sig_arg_names', kind)); continue
                for ta, tb in zip(ea, eb):
                    pos = la.index(ta.tensorIndex) if ta.tensorIndex in la else None
                    if pos is None: continue
                    if pos >= len(lb) or tb.tensorIndex != lb[pos]: errs.append(('sig_' + kind + '_not_subgraph_io', y.signatureKey.decode(), tb.name.decode()))
    return errs, maps
