import numpy as np, sys
sys.path.insert(0, '/verif/design_probes')
from rgen import rand_model
from ai_edge_quantizer import quantizer, qtyping
from ai_edge_quantizer.utils import tfl_interpreter_utils as iu
from ai_edge_quantizer.algorithms.uniform_quantize import uniform_quantize_tensor as uqt
seed = 45; m = rand_model(seed); it = iu.create_tfl_interpreter(m); rr = it.get_signature_runner(); r2 = np.random.default_rng(seed)
data = [{k: (r2.integers(0, 5, size=dd['shape']).astype(np.int32) if dd['dtype'] == np.int32 else r2.normal(size=dd['shape']).astype(np.float32)) for k, dd in rr.get_input_details().items()} for _ in range(2)]
qt = quantizer.Quantizer(m, '/repo/ai_edge_quantizer/recipes/default_a8w8_recipe.json'); cal = qt.calibrate(data); qm = bytes(qt.quantize(cal).quantized_model)
it2 = iu.create_tfl_interpreter(qm); r = it2.get_signature_runner()
for k, d in r.get_input_details().items():
    qp = d['quantization_parameters']; print(k, d['dtype'], qp['scales'], qp['zero_points'], d['shape'])
    p = qtyping.UniformQuantParams.from_tfl_tensor_details(d)
    for x in data:
        lib = uqt.uniform_quantize(x[k], p); info = np.iinfo(d['dtype'])
        mine = np.clip(np.rint(x[k] / qp['scales'][0] + qp['zero_points'][0]), info.min, info.max).astype(d['dtype'])
        print(' diff count', int(np.sum(lib != mine)), 'lib range', lib.min(), lib.max(), 'symmetric flag', p.symmetric, x[k].ravel()[:4], lib.ravel()[:4], mine.ravel()[:4])
