import numpy as np, sys, collections, re, time, json
sys.path.insert(0, '/verif/design_probes')
from rgen import rand_model
import fbcheck, drift
from ai_edge_quantizer import quantizer
from ai_edge_quantizer.utils import tfl_interpreter_utils as iu
drift.install()
import os; R = os.environ.get('AEQ_REPO', '/repo') + '/ai_edge_quantizer/recipes/'
recs = ['default_a8w8_recipe.json']
lo, hi = int(sys.argv[1]), int(sys.argv[2])
stats = collections.Counter(); ex = {}
for seed in range(lo, hi):
    try:
        m = rand_model(seed); it = iu.create_tfl_interpreter(m); rr = it.get_signature_runner(); r2 = np.random.default_rng(3)
        d = [{k: (r2.integers(0, 5, size=dd['shape']).astype(np.int32) if dd['dtype'] == np.int32 else r2.normal(size=dd['shape']).astype(np.float32)) for k, dd in rr.get_input_details().items()} for _ in range(2)]
        fo = iu.invoke_interpreter_signature(it, d[0])
    except Exception as e: continue
    for rec in recs:
        drift.EVENTS.clear()
        try:
            qt = quantizer.Quantizer(m, R + rec); cal = qt.calibrate(d) if qt.need_calibration else None
            qm = bytes(qt.quantize(cal).quantized_model)
        except Exception as e:
            stats['quant_exc'] += 1; continue
        errs = fbcheck.check(qm)
        errs_nosig = [e for e in errs if not e[0].startswith('sig_')]
        dk = 'drift' if drift.EVENTS else 'nodrift'
        kinds = sorted(set(e[0] for e in drift.EVENTS))
        try:
            it2 = iu.create_tfl_interpreter(qm); qo = iu.invoke_interpreter_signature(it2, d[0]); ik = 'interp_ok'
        except Exception as e: ik = 'interp_fail'
        key = f'{dk} struct={"bad" if errs_nosig else "ok"}({",".join(sorted(set(e[0] for e in errs_nosig)))}) sig={"bad" if len(errs) != len(errs_nosig) else "ok"} {ik} kinds={kinds}'
        stats[key] += 1; ex.setdefault(key, seed)
print(json.dumps({'stats': stats, 'ex': ex}))
