"""Prototype C17: arithmetic laws on direct calls."""
import numpy as np, sys, collections, warnings
from ai_edge_quantizer import qtyping
from ai_edge_quantizer.algorithms.uniform_quantize import uniform_quantize_tensor as u
warnings.simplefilter('ignore')
stats = collections.Counter(); ex = {}
def note(k, w): stats[k] += 1; ex.setdefault(k, w)
rng = np.random.default_rng(0)
def ranges():
    for mag in [1e-12, 1e-6, 1e-4, 1e-2, 1, 1e3, 1e10, 1e30, 3e38]:
        for kind in ['both', 'pos', 'neg', 'point', 'zero']:
            for dt in [np.float32, np.float64]:
                a, b = sorted(rng.uniform(-1, 1, 2) * mag)
                if kind == 'pos': a, b = abs(a), abs(a) + abs(b)
                if kind == 'neg': a, b = -abs(a) - abs(b), -abs(a)
                if kind == 'point': b = a
                if kind == 'zero': a = b = 0.0
                yield dt(a), dt(b), (mag, kind, dt.__name__)
for bits in [4, 8, 16]:
    qmin, qmax = -2 ** (bits - 1), 2 ** (bits - 1) - 1
    for sym in [True, False]:
        for mn, mx, tag in ranges():
            mna = np.array([[mn]]); mxa = np.array([[mx]])
            zp, sc = u.tensor_zp_scale_from_min_max(mna, mxa, bits, sym); stats['zs_calls'] += 1
            key = f'b{bits} sym{int(sym)}'
            if not (np.all(np.isfinite(sc)) and np.all(sc > 0)): note('SCALE_NOT_FINITE_POS ' + key, (tag, float(mn), float(mx), sc)); continue
            if not (np.all(zp >= qmin) and np.all(zp <= qmax)): note('ZP_RANGE ' + key, (tag, zp))
            if sym and np.any(zp != 0): note('ZP_SYM ' + key, (tag, zp))
            p = qtyping.UniformQuantParams(bits, None, sc, zp, symmetric=sym)
            lo = (float((-qmax if sym else qmin)) - float(zp.ravel()[0])) * float(sc.ravel()[0]); hi = (qmax - float(zp.ravel()[0])) * float(sc.ravel()[0]); step = float(sc.ravel()[0])
            if lo > min(float(mn), 0) + 0.5 * step * 1.001 or hi < max(float(mx), 0) - 0.5 * step * 1.001: note('COVERAGE ' + key, (tag, lo, hi, float(mn), float(mx)))
            # all codes round trip with params exactly as produced
            codes = np.arange(-qmax if sym else qmin, qmax + 1).reshape(1, -1).astype(u.assign_quantized_type(np.zeros(1), u.IntType(bits, True)).dtype)
            deq = u.uniform_dequantize(codes, p)
            ref = (codes.astype(np.int64) - zp.astype(np.int64)) * sc
            if not np.allclose(deq, ref, rtol=1e-6, atol=0): note('DEQUANT_WRAP ' + key, (tag, int(np.sum(~np.isclose(deq, ref)))))
            rq = u.uniform_quantize(np.asarray(ref, dtype=sc.dtype), p)
            if np.any(rq != codes): note('Q_OF_DQ_NOT_ID ' + key, (tag, int(np.sum(rq != codes))))
            # quantize random in-range data
            x = rng.uniform(min(float(mn), 0), max(float(mx), 0), size=(1, 257)).astype(sc.dtype if sc.dtype.kind == 'f' else np.float32)
            q = u.uniform_quantize(x, p)
            if q.min() < (-qmax if sym else qmin) or q.max() > qmax: note('Q_RANGE ' + key, tag)
            xs = np.sort(x, axis=1); qs = u.uniform_quantize(xs, p)
            if np.any(np.diff(qs.astype(np.int64), axis=1) < 0): note('NOT_MONOTONE ' + key, tag)
            back = (q.astype(np.int64) - zp.astype(np.int64)) * sc
            err = np.max(np.abs(back - x)) / step
            if err > 0.5 * 1.001 + (0.5 if not sym else 0) * 0: 
                if err > 0.5 * 1.01: note('ROUNDTRIP_ERR ' + key, (tag, float(err)))
for k, v in sorted(stats.items()): print(v, k, ex.get(k, ''))
