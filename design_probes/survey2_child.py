"""Survey with random mixed recipes (C01/C03 workload): outcome histogram incl. interpreter."""
import numpy as np, sys, collections, re, json, os
sys.path.insert(0, '/verif/design_probes')
from rgen import rand_model
from proto_c03 import CFGS, OP, CODE2NAME, check
import skeleton, fbcheck
from ai_edge_quantizer import quantizer
from ai_edge_quantizer.utils import tfl_interpreter_utils as iu
from tensorflow.lite.tools import flatbuffer_utils as fu
import absl.logging; absl.logging.set_verbosity(absl.logging.ERROR)
lo, hi = int(sys.argv[1]), int(sys.argv[2]); skip = set(x for x in sys.argv[3].split(',') if x) if len(sys.argv) > 3 else set()
stats = collections.Counter(); ex = {}
def flush(seed): print('STAT ' + json.dumps({'stats': stats, 'ex': ex}), flush=True); print(f'DONE {seed}', flush=True); stats.clear(); ex.clear()
for seed in range(lo, hi):
    rng = np.random.default_rng(seed + 11)
    try:
        m = rand_model(seed); it = iu.create_tfl_interpreter(m); fm = fu.read_model_from_bytearray(bytearray(m)); sg = fm.subgraphs[0]
        if not sg.operators: flush(seed); continue
        used = {int(i) for op in sg.operators for i in op.inputs}
        if any(int(i) not in used for i in sg.inputs): flush(seed); continue
        rr = it.get_signature_runner(); data = [{a: (rng.integers(0, 5, size=dd['shape']).astype(np.int32) if dd['dtype'] == np.int32 else rng.normal(size=dd['shape']).astype(np.float32)) for a, dd in rr.get_input_details().items()} for _ in range(2)]
        fo = iu.invoke_interpreter_signature(it, data[0])
    except Exception: flush(seed); continue
    outs = [sg.tensors[int(o)].name.decode() for op in sg.operators for o in op.outputs]
    for trial in range(3):
        tag = f'{seed}:{trial}'
        if tag in skip: continue
        rules = []
        for _ in range(int(rng.integers(1, 4))):
            rx = '.*' if rng.random() < 0.5 else re.escape(outs[int(rng.integers(len(outs)))][2:])
            sel = OP.ALL_SUPPORTED if rng.random() < 0.5 else CODE2NAME.get(skeleton.code(fm, sg.operators[int(rng.integers(len(sg.operators)))]), OP.FULLY_CONNECTED)
            rules.append((rx, sel, str(rng.choice(list(CFGS)))))
        qt = quantizer.Quantizer(m); acc = []
        for rx, sel, name in rules:
            alg, cfg = CFGS[name]
            try: qt.update_quantization_recipe(rx, sel, cfg, alg); acc.append((rx, sel.value, name))
            except ValueError: pass
        if not acc: continue
        cfgset = '+'.join(sorted({a[2] for a in acc}))
        try:
            cal = qt.calibrate(data) if qt.need_calibration else None; qm = bytes(qt.quantize(cal).quantized_model)
        except Exception as e:
            k = 'QUANT_EXC ' + type(e).__name__ + ' ' + re.sub(r"b'[^']*'|[\w/]+_\d+", 'T', str(e))[:80]; stats[k] += 1; ex.setdefault(k, (tag, acc)); continue
        errs = [e[0] for e in fbcheck.check(qm) if not e[0].startswith('sig_')]
        if errs: k = 'STRUCT ' + ','.join(sorted(set(errs))); stats[k] += 1; ex.setdefault(k, (tag, acc))
        print(f'CASE {tag}', flush=True)
        try: it2 = iu.create_tfl_interpreter(qm); iu.invoke_interpreter_signature(it2, data[0]); stats['interp_ok'] += 1
        except Exception as e:
            k = 'INTERP_EXC ' + re.sub(r'\d+', 'N', str(e))[-100:].replace('\n', ' ') + ' | ' + cfgset; stats[k] += 1; ex.setdefault(k, (tag, acc))
    flush(seed)
