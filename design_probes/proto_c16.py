import numpy as np, sys
sys.path.insert(0, '/verif/design_probes')
from mb import *; from ops import G
from rgen import rand_model
from ai_edge_quantizer import quantizer, model_modifier
from ai_edge_litert import schema_py_generated as S2
from tensorflow.lite.tools import flatbuffer_utils
R = '/repo/ai_edge_quantizer/recipes/'
def large_and_small(m, rec):
    qt = quantizer.Quantizer(m, R + rec); params = qt._get_quantization_params(None)
    small = bytes(model_modifier.ModelModifier(m).modify_model(params))
    mm = model_modifier.ModelModifier(m); src = mm._process_constant_map; mm._process_constant_map = lambda qm: (src(qm), 2**31)[1]
    qt2 = quantizer.Quantizer(m, R + rec); params2 = qt2._get_quantization_params(None)
    return small, bytes(mm.modify_model(params2))
def check(small, large):
    errs = []
    rs = S2.Model.GetRootAs(small, 0); rl = S2.Model.GetRootAs(large, 0)
    if rs.BuffersLength() != rl.BuffersLength(): return ['nbuf']
    spans = []
    for i in range(rl.BuffersLength()):
        bs, bl = rs.Buffers(i), rl.Buffers(i)
        emb = bs.DataAsNumpy().tobytes() if bs.DataLength() else b''
        if bl.DataLength(): errs.append(('large_has_inline_data', i))
        off, size = bl.Offset(), bl.Size()
        if bs.DataLength() == 0 and bs.DataIsNone():
            if off or size: errs.append(('none_buffer_has_offset', i, off, size))
            continue
        if off % 16: errs.append(('misaligned', i, off))
        if off + size > len(large) or off <= 1: errs.append(('oob', i, off, size, len(large)))
        if large[off:off + size] != emb: errs.append(('bytes_differ', i, off, size, len(emb)))
        spans.append((off, off + size))
    spans.sort()
    for (a, b), (c, d) in zip(spans, spans[1:]):
        if c < b: errs.append(('overlap', a, b, c, d))
    return errs
rng = np.random.default_rng(0)
b = B(); g = G(b, 'main', '', rng); x = g.inp((1, 8), name='x'); y = g.fc(x, 4)
e = g.const('empty', np.zeros((0,), dtype=np.float32)); z = g.concat([y, g.reshape(e, [1, 0])], 1); g.finish([z], 'serving_default'); m = b.build()
print('empty-const model:', check(*large_and_small(m, 'default_af32w8float_recipe.json')))
bad = 0
for seed in range(200):
    try: m = rand_model(seed)
    except Exception: continue
    try: s, l = large_and_small(m, 'default_af32w8float_recipe.json')
    except Exception as ex: continue
    er = check(s, l)
    if er: bad += 1; print(seed, er[:3])
print('bad', bad)
