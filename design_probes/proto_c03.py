"""Prototype C03 oracle: per-operand dtype expectation from the resolved mode."""
import numpy as np, sys, collections, os, re
sys.path.insert(0, '/verif/design_probes')
from rgen import rand_model
from mb import BO, S
import skeleton
from ai_edge_quantizer import quantizer, qtyping, algorithm_manager
from ai_edge_quantizer.utils import tfl_interpreter_utils as iu
from tensorflow.lite.tools import flatbuffer_utils as fu
import absl.logging; absl.logging.set_verbosity(absl.logging.ERROR)
TT = S.TensorType; OP = qtyping.TFLOperationName; ALG = algorithm_manager.AlgorithmName
T = qtyping.TensorQuantizationConfig; C = qtyping.OpQuantizationConfig; G = qtyping.QuantGranularity; CP = qtyping.ComputePrecision
CODE2NAME = {BO.FULLY_CONNECTED: OP.FULLY_CONNECTED, BO.BATCH_MATMUL: OP.BATCH_MATMUL, BO.CONV_2D: OP.CONV_2D, BO.DEPTHWISE_CONV_2D: OP.DEPTHWISE_CONV_2D, BO.TRANSPOSE_CONV: OP.CONV_2D_TRANSPOSE, BO.EMBEDDING_LOOKUP: OP.EMBEDDING_LOOKUP, BO.SOFTMAX: OP.SOFTMAX, BO.AVERAGE_POOL_2D: OP.AVERAGE_POOL_2D, BO.RESHAPE: OP.RESHAPE, BO.TANH: OP.TANH, BO.TRANSPOSE: OP.TRANSPOSE, BO.GELU: OP.GELU, BO.ADD: OP.ADD, BO.SUB: OP.SUB, BO.MUL: OP.MUL, BO.MEAN: OP.MEAN, BO.RSQRT: OP.RSQRT, BO.CONCATENATION: OP.CONCATENATION, BO.STRIDED_SLICE: OP.STRIDED_SLICE, BO.SPLIT: OP.SPLIT, BO.LOGISTIC: OP.LOGISTIC}
WEIGHT_OPS = {OP.FULLY_CONNECTED, OP.CONV_2D, OP.BATCH_MATMUL, OP.EMBEDDING_LOOKUP, OP.DEPTHWISE_CONV_2D, OP.CONV_2D_TRANSPOSE}
BIAS_IDX = {OP.FULLY_CONNECTED: 2, OP.CONV_2D: 2, OP.DEPTHWISE_CONV_2D: 2, OP.CONV_2D_TRANSPOSE: 3}
CFGS = {
 'srq8a': (ALG.MIN_MAX_UNIFORM_QUANT, C(T(8, False), T(8, True, G.CHANNELWISE), CP.INTEGER)),
 'srq8s_w4': (ALG.MIN_MAX_UNIFORM_QUANT, C(T(8, True), T(4, True, G.TENSORWISE), CP.INTEGER)),
 'srq16': (ALG.MIN_MAX_UNIFORM_QUANT, C(T(16, True), T(8, True, G.CHANNELWISE), CP.INTEGER)),
 'drq8': (ALG.MIN_MAX_UNIFORM_QUANT, C(None, T(8, True, G.CHANNELWISE), CP.INTEGER)),
 'drq4': (ALG.MIN_MAX_UNIFORM_QUANT, C(None, T(4, True, G.CHANNELWISE), CP.INTEGER)),
 'wo8': (ALG.MIN_MAX_UNIFORM_QUANT, C(None, T(8, False, G.CHANNELWISE), CP.FLOAT, True)),
 'wo4': (ALG.MIN_MAX_UNIFORM_QUANT, C(None, T(4, True, G.TENSORWISE), CP.FLOAT, True)),
 'fp16': (ALG.FLOAT_CASTING, C(None, T(16, True, dtype=qtyping.TensorDataType.FLOAT), CP.FLOAT, True)),
 'noq': (ALG.NO_QUANTIZE, None),
}
def supported(alg, op, cfg):
    try: algorithm_manager.check_op_quantization_config(alg, op, cfg); return True
    except ValueError: return False
def resolve(rules, op, scope):
    res = None
    order = []; byrx = {}
    for rx, sel, name in rules:
        if rx not in byrx: byrx[rx] = []; order.append(rx)
        if sel == OP.ALL_SUPPORTED: byrx[rx] = [(sel, name)]
        else:
            for i, (s_, _) in enumerate(byrx[rx]):
                if s_ == sel: byrx[rx][i] = (sel, name); break
            else: byrx[rx].append((sel, name))
    for rx in order:
        if not re.search(rx, scope): continue
        for sel, name in byrx[rx]:
            if sel != OP.ALL_SUPPORTED and sel != op: continue
            alg, cfg = CFGS[name]
            if alg != ALG.NO_QUANTIZE and not supported(alg, op, cfg): continue
            res = name
    return None if res in (None, 'noq') else res
def mode_of(name):
    if name is None: return 'float'
    alg, cfg = CFGS[name]
    if alg == ALG.FLOAT_CASTING: return 'fp16'
    if cfg.compute_precision == CP.INTEGER: return 'srq' if cfg.activation_tensor_config else 'drq'
    return 'wo'
ACT = {8: TT.INT8, 16: TT.INT16}; WT = {4: TT.INT4, 8: TT.INT8}
def check(src, out, rules, stats):
    errs, maps = skeleton.analyse(src, out)
    if [e for e in errs if not e[0].startswith('sig_')]: stats['skeleton_broken'] += 1; return []
    ms = fu.read_model_from_bytearray(bytearray(src)); mo = fu.read_model_from_bytearray(bytearray(out)); v = []
    for si, (a, b) in enumerate(zip(ms.subgraphs, mo.subgraphs)):
        mp = maps[si]; isconst = lambda t: ms.buffers[a.tensors[t].buffer].data is not None
        producer_of = {int(o): op for op in b.operators for o in op.outputs}
        def name(t): return a.tensors[t].name.decode()
        # virtual INPUT / OUTPUT ops
        in_res = resolve(rules, OP.INPUT, ''.join(name(int(t)) + ';' for t in a.inputs)); out_res = resolve(rules, OP.OUTPUT, '')
        for pos, t in enumerate(a.inputs):
            tb = b.tensors[int(b.inputs[pos])]; exp = ACT[CFGS[in_res][1].activation_tensor_config.num_bits] if mode_of(in_res) == 'srq' and a.tensors[int(t)].type == TT.FLOAT32 else a.tensors[int(t)].type
            stats['operands'] += 1
            if tb.type != exp: v.append(('graph_input_dtype', si, pos, tb.type, exp))
        for pos, t in enumerate(a.outputs):
            tb = b.tensors[int(b.outputs[pos])]; exp = ACT[CFGS[out_res][1].activation_tensor_config.num_bits] if mode_of(out_res) == 'srq' and a.tensors[int(t)].type == TT.FLOAT32 else a.tensors[int(t)].type
            stats['operands'] += 1
            if tb.type != exp: v.append(('graph_output_dtype', si, pos, tb.type, exp))
        for k, oa in enumerate(a.operators):
            ob = b.operators[mp['kept'][k]]; c = skeleton.code(ms, oa); opn = CODE2NAME.get(c)
            scope = ''.join(name(int(o)) + ';' for o in oa.outputs if int(o) != -1)
            r = resolve(rules, opn, scope) if opn is not None else None; mode = mode_of(r); cfg = CFGS[r][1] if r else None
            stats['mode_' + mode] += 1
            for kind, la, lb in (('in', oa.inputs, ob.inputs), ('out', oa.outputs, ob.outputs)):
                for pos, (t0, t1) in enumerate(zip(la, lb)):
                    t0, t1 = int(t0), int(t1)
                    if t0 == -1: continue
                    ta, tb = a.tensors[t0], b.tensors[t1]; stats['operands'] += 1
                    const = isconst(t0)
                    if ta.type != TT.FLOAT32:
                        exp = ('same', ta.type)
                    elif mode == 'float': exp = ('same', TT.FLOAT32)
                    elif mode == 'srq':
                        if kind == 'in' and const and opn in BIAS_IDX and pos == BIAS_IDX[opn]: exp = ('type', TT.INT64 if cfg.activation_tensor_config.num_bits == 16 else TT.INT32)
                        elif kind == 'in' and const and opn in WEIGHT_OPS: exp = ('type', WT[cfg.weight_tensor_config.num_bits])
                        else: exp = ('type', ACT[cfg.activation_tensor_config.num_bits])
                    elif mode in ('wo', 'fp16', 'drq'):
                        is_weight = kind == 'in' and const and opn in WEIGHT_OPS and not (opn in BIAS_IDX and pos == BIAS_IDX[opn])
                        if mode == 'fp16': is_weight = is_weight and pos == 1
                        if not is_weight: exp = ('same', TT.FLOAT32)
                        elif mode == 'drq': exp = ('type', WT[cfg.weight_tensor_config.num_bits])
                        else: exp = ('dq_of', TT.FLOAT16 if mode == 'fp16' else WT[cfg.weight_tensor_config.num_bits])
                    if exp[0] in ('same', 'type'):
                        if tb.type != exp[1]: v.append((f'{mode}_{kind}_dtype', si, k, pos, opn.value if opn else c, tb.type, exp[1]))
                        if exp[0] == 'same' and const:
                            d0 = ms.buffers[ta.buffer].data; d1 = mo.buffers[tb.buffer].data
                            if bytes(np.asarray(d0).tobytes()) != bytes(np.asarray(d1).tobytes()): v.append((f'{mode}_const_bytes_changed', si, k, pos))
                    else:
                        p = producer_of.get(t1)
                        if tb.type != TT.FLOAT32 or p is None or skeleton.code(mo, p) != BO.DEQUANTIZE or b.tensors[int(p.inputs[0])].type != exp[1]: v.append((f'{mode}_weight_not_via_dequantize', si, k, pos, tb.type))
        for oi in mp['inserted']:
            op = b.operators[oi]; c = skeleton.code(mo, op); ti, to = b.tensors[int(op.inputs[0])], b.tensors[int(op.outputs[0])]
            if c == BO.QUANTIZE and (to.type not in (TT.INT8, TT.INT16) or to.quantization is None or to.quantization.scale is None): v.append(('bad_quantize_op', si, oi))
            if c == BO.DEQUANTIZE and (to.type != TT.FLOAT32 or ti.type not in (TT.INT4, TT.INT8, TT.INT16, TT.FLOAT16)): v.append(('bad_dequantize_op', si, oi, ti.type))
    return v
def main():
    R = os.environ.get('AEQ_REPO', '/repo') + '/ai_edge_quantizer/recipes/'
    stats = collections.Counter(); ex = {}
    for seed in range(int(sys.argv[1]), int(sys.argv[2])):
        rng = np.random.default_rng(seed + 7)
        try:
            m = rand_model(seed); it = iu.create_tfl_interpreter(m); fm = fu.read_model_from_bytearray(bytearray(m))
            if not fm.subgraphs[0].operators: continue
            rr = it.get_signature_runner(); data = [{a: (rng.integers(0, 5, size=dd['shape']).astype(np.int32) if dd['dtype'] == np.int32 else rng.normal(size=dd['shape']).astype(np.float32)) for a, dd in rr.get_input_details().items()} for _ in range(2)]
            iu.invoke_interpreter_signature(it, data[0])
        except Exception: continue
        outs = [fm.subgraphs[0].tensors[int(o)].name.decode() for op in fm.subgraphs[0].operators for o in op.outputs]
        for trial in range(3):
            rules = []
            for _ in range(int(rng.integers(1, 4))):
                rx = '.*' if rng.random() < 0.5 else re.escape(outs[int(rng.integers(len(outs)))][2:])
                sel = OP.ALL_SUPPORTED if rng.random() < 0.5 else CODE2NAME.get(skeleton.code(fm, fm.subgraphs[0].operators[int(rng.integers(len(fm.subgraphs[0].operators)))]), OP.FULLY_CONNECTED)
                rules.append((rx, sel, str(rng.choice(list(CFGS)))))
            qt = quantizer.Quantizer(m); acc = []
            for rx, sel, name in rules:
                alg, cfg = CFGS[name]
                try: qt.update_quantization_recipe(rx, sel, cfg, alg); acc.append((rx, sel, name))
                except ValueError: pass
            if not acc: continue
            try:
                cal = qt.calibrate(data) if qt.need_calibration else None; qm = bytes(qt.quantize(cal).quantized_model)
            except Exception as e: stats['raised_' + type(e).__name__] += 1; continue
            v = check(m, qm, acc, stats); stats['cases'] += 1
            for e in v: stats['V:' + e[0]] += 1; ex.setdefault(e[0], (seed, trial, [(a, b.value, c) for a, b, c in acc], e))
    for k, v in sorted(stats.items()): print(v, k)
    for k, v in ex.items(): print(k, v)
if __name__ == '__main__': main()
