import numpy as np, sys
sys.path.insert(0, '/verif/design_probes')
from rgen import rand_model
import inspect_model
from proto_c03 import CFGS, OP
from ai_edge_quantizer import quantizer
from ai_edge_quantizer.utils import tfl_interpreter_utils as iu
seed = int(sys.argv[1]); rules = eval(sys.argv[2])
m = rand_model(seed); inspect_model.dump(m); rng = np.random.default_rng(seed + 7)
it = iu.create_tfl_interpreter(m); rr = it.get_signature_runner(); data = [{a: (rng.integers(0, 5, size=dd['shape']).astype(np.int32) if dd['dtype'] == np.int32 else rng.normal(size=dd['shape']).astype(np.float32)) for a, dd in rr.get_input_details().items()} for _ in range(2)]
qt = quantizer.Quantizer(m)
for rx, sel, name in rules: qt.update_quantization_recipe(rx, OP(sel), CFGS[name][1], CFGS[name][0])
cal = qt.calibrate(data) if qt.need_calibration else None; qm = bytes(qt.quantize(cal).quantized_model); inspect_model.dump(qm)
