import numpy as np, sys, copy, collections
sys.path.insert(0, '/verif/design_probes')
from rgen import rand_model
from ai_edge_quantizer import quantizer, recipe_manager, qtyping
from ai_edge_quantizer.utils import tfl_interpreter_utils as iu
from tensorflow.lite.tools import flatbuffer_utils as fu
OP = qtyping.TFLOperationName
T = qtyping.TensorQuantizationConfig; C = qtyping.OpQuantizationConfig; CP = qtyping.ComputePrecision; G = qtyping.QuantGranularity
SRQ = C(T(8, False), T(8, True, G.CHANNELWISE), CP.INTEGER)
TRACE = []; PHASE = [None]
_orig = recipe_manager.RecipeManager.get_quantization_configs
def spy(self, op, scope):
    r = _orig(self, op, scope); TRACE.append((PHASE[0], str(op.value if hasattr(op, 'value') else op), scope.replace(';', ''), str(r[0].value if hasattr(r[0], 'value') else r[0]))); return r
recipe_manager.RecipeManager.get_quantization_configs = spy
for name in ('calibrate', 'quantize'):
    def mk(name):
        f = getattr(quantizer.Quantizer, name)
        def w(self, *a, **k):
            PHASE[0] = name
            try: return f(self, *a, **k)
            finally: PHASE[0] = None
        return w
    setattr(quantizer.Quantizer, name, mk(name))
res = collections.Counter()
for seed in range(150):
    try:
        m = rand_model(seed); it = iu.create_tfl_interpreter(m); rr = it.get_signature_runner(); r2 = np.random.default_rng(seed)
        data = [{k: (r2.integers(0, 5, size=dd['shape']).astype(np.int32) if dd['dtype'] == np.int32 else r2.normal(size=dd['shape']).astype(np.float32)) for k, dd in rr.get_input_details().items()} for _ in range(2)]
        iu.invoke_interpreter_signature(it, data[0])
    except Exception: continue
    fm = fu.read_model_from_bytearray(bytearray(m)); sg = fm.subgraphs[0]
    names = [sg.tensors[o].name.decode() for op in sg.operators for o in op.outputs]
    if not names: continue
    nm = names[int(r2.integers(len(names)))]
    import re
    for kind, rx in [('any', '.*'), ('substr', re.escape(nm[2:])), ('anch_end', re.escape(nm) + '$'), ('anch_both', '^' + re.escape(nm) + '$'), ('semi', re.escape(nm) + ';'), ('prefix', '^' + re.escape(nm[:4]))]:
        TRACE.clear()
        qt = quantizer.Quantizer(m); qt.update_quantization_recipe(rx, OP.ALL_SUPPORTED, SRQ)
        out = 'ok'
        try:
            cal = qt.calibrate(data)
            try: qt.quantize(cal)
            except Exception as e: out = 'quantize_exc:' + type(e).__name__ + ':' + str(e)[:40]
        except Exception as e: out = 'calib_exc:' + type(e).__name__
        dec = {'calibrate': {}, 'quantize': {}}
        for ph, op, sc, alg in TRACE: dec[ph][(op, sc)] = alg != 'no_quantize'
        common = set(dec['calibrate']) & set(dec['quantize'])
        dis = [k for k in common if dec['calibrate'][k] != dec['quantize'][k]]
        res[(kind, 'disagree' if dis else 'agree', out if not out.startswith('quantize_exc:Runtime') or 'QSV' in out or 'statist' in out else 'quantize_exc:other')] += 1
for k, v in sorted(res.items()): print(v, k)
