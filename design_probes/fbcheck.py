"""Prototype structural well-formedness checker (C01 static part)."""
from tensorflow.lite.tools import flatbuffer_utils
def check(model_bytes):
    errs = []
    m = flatbuffer_utils.read_model_from_bytearray(bytearray(model_bytes))
    nb = len(m.buffers); nc = len(m.operatorCodes)
    names = set()
    for si, sg in enumerate(m.subgraphs):
        nt = len(sg.tensors)
        for ti, t in enumerate(sg.tensors):
            if not (0 <= t.buffer < nb): errs.append(('buffer_index', si, ti))
            if t.name in names: errs.append(('dup_name', si, t.name.decode()))
            names.add(t.name)
        produced = {}
        const = {ti for ti, t in enumerate(sg.tensors) if m.buffers[t.buffer].data is not None and len(m.buffers[t.buffer].data) > 0} if all(0 <= t.buffer < nb for t in sg.tensors) else set()
        avail = set(int(i) for i in sg.inputs) | const
        for i in list(sg.inputs) + list(sg.outputs):
            if not (0 <= i < nt): errs.append(('io_index', si, int(i)))
        for oi, op in enumerate(sg.operators):
            if not (0 <= op.opcodeIndex < nc): errs.append(('opcode_index', si, oi))
            for i in op.inputs:
                i = int(i)
                if i == -1: continue
                if not (0 <= i < nt): errs.append(('op_input_index', si, oi, i)); continue
                if i not in avail: errs.append(('order', si, oi, i, sg.tensors[i].name.decode()))
            for o in op.outputs:
                o = int(o)
                if not (0 <= o < nt): errs.append(('op_output_index', si, oi, o)); continue
                if o in produced: errs.append(('multi_producer', si, o))
                if o in const or o in set(int(i) for i in sg.inputs): errs.append(('writes_const_or_input', si, oi, o))
                produced[o] = oi; avail.add(o)
        for o in sg.outputs:
            if int(o) not in avail: errs.append(('output_never_produced', si, int(o)))
    for s in (m.signatureDefs or []):
        if not (0 <= s.subgraphIndex < len(m.subgraphs)): errs.append(('sig_subgraph', s.signatureKey)); continue
        sg = m.subgraphs[s.subgraphIndex]
        for tm in s.inputs:
            if not (0 <= tm.tensorIndex < len(sg.tensors)): errs.append(('sig_in_index',))
            elif tm.tensorIndex not in list(sg.inputs): errs.append(('sig_in_not_graph_input', tm.name.decode()))
        for tm in s.outputs:
            if not (0 <= tm.tensorIndex < len(sg.tensors)): errs.append(('sig_out_index',))
            elif tm.tensorIndex not in list(sg.outputs): errs.append(('sig_out_not_graph_output', tm.name.decode()))
    return errs
