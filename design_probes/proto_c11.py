"""Prototype C11: recipe resolution vs reference model over enumerated histories."""
import itertools, re, sys, collections, time
from ai_edge_quantizer import recipe_manager, qtyping, algorithm_manager
OP = qtyping.TFLOperationName; ALG = algorithm_manager.AlgorithmName
T = qtyping.TensorQuantizationConfig; C = qtyping.OpQuantizationConfig; CP = qtyping.ComputePrecision; G = qtyping.QuantGranularity
cfgs = {
 'srq8': C(T(8, False), T(8, True, G.CHANNELWISE), CP.INTEGER),
 'drq8': C(None, T(8, True, G.CHANNELWISE), CP.INTEGER),
 'wo4': C(None, T(4, False, G.CHANNELWISE), CP.FLOAT, True),
 'bad': C(None, T(16, True), CP.INTEGER),           # unsupported everywhere
 'fp16': C(None, T(16, True, dtype=qtyping.TensorDataType.FLOAT), CP.FLOAT, True),
}
algs = {'srq8': ALG.MIN_MAX_UNIFORM_QUANT, 'drq8': ALG.MIN_MAX_UNIFORM_QUANT, 'wo4': ALG.MIN_MAX_UNIFORM_QUANT, 'bad': ALG.MIN_MAX_UNIFORM_QUANT, 'fp16': ALG.FLOAT_CASTING, 'noq': ALG.NO_QUANTIZE}
regexes = ['.*', 'a/', 'a/b;', '^c']
ops = [OP.ALL_SUPPORTED, OP.FULLY_CONNECTED, OP.TANH]
scopes = ['a/b;', 'a/c;', 'c;', 'x/a/b;d;']
qops = [OP.FULLY_CONNECTED, OP.TANH, OP.CONV_2D, OP.EMBEDDING_LOOKUP]
def supported(alg, op, cfg):
    try: algorithm_manager.check_op_quantization_config(alg, op, cfg); return True
    except ValueError: return False
class Ref:
    def __init__(self): self.scopes = collections.OrderedDict()
    def add(self, regex, op, cfgname):
        alg = algs[cfgname]; cfg = cfgs.get(cfgname, C())
        if op == OP.ALL_SUPPORTED: self.scopes[regex] = [(op, alg, cfg)]; return True
        if alg != ALG.NO_QUANTIZE and not supported(alg, op, cfg): return False
        rules = self.scopes.setdefault(regex, [])
        for i, r in enumerate(rules):
            if r[0] == op: rules[i] = (op, alg, cfg); return True
        rules.append((op, alg, cfg)); return True
    def resolve(self, op, scope):
        res = (ALG.NO_QUANTIZE, C())
        for rx, rules in self.scopes.items():
            if not re.search(rx, scope): continue
            for (o, alg, cfg) in rules:
                if o != OP.ALL_SUPPORTED and o != op: continue
                if alg != ALG.NO_QUANTIZE and not supported(alg, op, cfg): continue
                res = (alg, cfg)
        return res
alphabet = [(rx, op, c) for rx in regexes for op in ops for c in list(cfgs) + ['noq']]
print('alphabet', len(alphabet))
def run(hist):
    rm = recipe_manager.RecipeManager(); ref = Ref()
    for rx, op, c in hist:
        try: rm.add_quantization_config(rx, op, cfgs.get(c), algs[c]); acc = True
        except ValueError: acc = False
        if ref.add(rx, op, c) != acc: return ('accept_mismatch', hist)
    for op in qops:
        for sc in scopes:
            a = rm.get_quantization_configs(op, sc); b = ref.resolve(op, sc)
            if a != b: return ('resolve_mismatch', hist, op, sc, a, b)
    return None
import absl.logging; absl.logging.set_verbosity(absl.logging.ERROR)
t0 = time.time(); n = 0; bad = []
for L in [1, 2]:
    for hist in itertools.product(alphabet, repeat=L):
        n += 1; r = run(hist)
        if r: bad.append(r)
print('histories', n, 'mismatches', len(bad), 'time', time.time() - t0); print(bad[:3])
