"""Prototype op library over mb.B: each function appends one op and returns output tensor id(s)."""
import numpy as np
from mb import B, BO, S

class G:
    def __init__(self, b, name, prefix, rng):
        self.b = b; self.sg = b.subgraph(name); self.p = prefix; self.rng = rng; self.n = 0
        self.shape = {}; self.positive = set()
    def nm(self, base):
        self.n += 1; return f'{self.p}{base}_{self.n}'
    def inp(self, shape, ttype=S.TensorType.FLOAT32, name=None):
        t = self.b.act(self.sg, name or self.nm('in'), shape, ttype); self.shape[t] = tuple(shape); self.sg.inputs.append(t); return t
    def act(self, base, shape):
        t = self.b.act(self.sg, self.nm(base), shape); self.shape[t] = tuple(shape); return t
    def const(self, base, arr, buffer=None, name=None):
        t = self.b.const(self.sg, name or self.nm(base), arr, buffer); self.shape[t] = tuple(np.asarray(arr).shape); return t
    def w(self, shape, scale=1.0):
        return (self.rng.normal(size=shape) * scale).astype(np.float32)
    def op(self, code, ins, outs, opts=None, ot=0):
        return self.b.op(self.sg, code, ins, outs, opts, ot)
    # ---- supported ops
    def fc(self, x, units, bias=True, act=0, keep=False, w=None, b=None):
        sh = self.shape[x]; I = sh[-1]
        w = self.const('fc_w', self.w((units, I), 0.5)) if w is None else w
        bt = (self.const('fc_b', self.w((units,))) if b is None else b) if bias else -1
        o = S.FullyConnectedOptionsT(); o.fusedActivationFunction = act; o.keepNumDims = keep
        osh = (sh[:-1] + (units,)) if keep else (int(np.prod(sh[:-1])), units)
        y = self.act('fc', osh); self.op(BO.FULLY_CONNECTED, [x, w, bt], [y], o, S.BuiltinOptions.FullyConnectedOptions); return y
    def conv(self, x, cout, k=3, stride=1, same=True, bias=True, act=0):
        n, h, wd, c = self.shape[x]
        w = self.const('conv_w', self.w((cout, k, k, c), 0.3)); bt = self.const('conv_b', self.w((cout,))) if bias else -1
        o = S.Conv2DOptionsT(); o.padding = 0 if same else 1; o.strideH = o.strideW = stride; o.fusedActivationFunction = act
        oh = -(-h // stride) if same else (h - k) // stride + 1; ow = -(-wd // stride) if same else (wd - k) // stride + 1
        y = self.act('conv', (n, oh, ow, cout)); self.op(BO.CONV_2D, [x, w, bt], [y], o, S.BuiltinOptions.Conv2DOptions); return y
    def dwconv(self, x, mult=1, k=3, stride=1, same=True, bias=True, act=0):
        n, h, wd, c = self.shape[x]
        w = self.const('dw_w', self.w((1, k, k, c * mult), 0.3)); bt = self.const('dw_b', self.w((c * mult,))) if bias else -1
        o = S.DepthwiseConv2DOptionsT(); o.padding = 0 if same else 1; o.strideH = o.strideW = stride; o.depthMultiplier = mult; o.fusedActivationFunction = act
        oh = -(-h // stride) if same else (h - k) // stride + 1; ow = -(-wd // stride) if same else (wd - k) // stride + 1
        y = self.act('dwconv', (n, oh, ow, c * mult)); self.op(BO.DEPTHWISE_CONV_2D, [x, w, bt], [y], o, S.BuiltinOptions.DepthwiseConv2DOptions); return y
    def tconv(self, x, cout, k=2, stride=2, bias=True):
        n, h, wd, c = self.shape[x]
        oh, ow = h * stride, wd * stride  # SAME
        osh = self.const('tconv_shape', np.array([n, oh, ow, cout], dtype=np.int32))
        w = self.const('tconv_w', self.w((cout, k, k, c), 0.3))
        ins = [osh, w, x] + ([self.const('tconv_b', self.w((cout,)))] if bias else [])
        o = S.TransposeConvOptionsT(); o.padding = 0; o.strideH = o.strideW = stride
        y = self.act('tconv', (n, oh, ow, cout)); self.op(BO.TRANSPOSE_CONV, ins, [y], o, S.BuiltinOptions.TransposeConvOptions); return y
    def bmm(self, x, y=None, n_out=4, adj_x=False, adj_y=False):
        sh = self.shape[x]; k = sh[-2] if adj_x else sh[-1]
        if y is None:
            ysh = sh[:-2] + ((n_out, k) if adj_y else (k, n_out)); y = self.const('bmm_w', self.w(ysh, 0.5))
        ysh = self.shape[y]; n = ysh[-2] if adj_y else ysh[-1]; m = sh[-1] if adj_x else sh[-2]
        o = S.BatchMatMulOptionsT(); o.adjX = adj_x; o.adjY = adj_y
        z = self.act('bmm', sh[:-2] + (m, n)); self.op(BO.BATCH_MATMUL, [x, y], [z], o, S.BuiltinOptions.BatchMatMulOptions); return z
    def emb(self, ids, vocab, dim, w=None):
        w = self.const('emb_w', self.w((vocab, dim))) if w is None else w
        y = self.act('emb', self.shape[ids] + (dim,)); self.op(BO.EMBEDDING_LOOKUP, [ids, w], [y]); return y
    def avgpool(self, x, k=2, stride=2):
        n, h, wd, c = self.shape[x]; o = S.Pool2DOptionsT(); o.padding = 1; o.strideH = o.strideW = stride; o.filterHeight = o.filterWidth = k
        y = self.act('avgpool', (n, (h - k) // stride + 1, (wd - k) // stride + 1, c)); self.op(BO.AVERAGE_POOL_2D, [x], [y], o, S.BuiltinOptions.Pool2DOptions); return y
    def reshape(self, x, new):
        s = self.const('reshape_shape', np.array(new, dtype=np.int32)); o = S.ReshapeOptionsT(); o.newShape = list(new)
        y = self.act('reshape', tuple(new)); self.op(BO.RESHAPE, [x, s], [y], o, S.BuiltinOptions.ReshapeOptions); return y
    def unary(self, code, base, x, opts=None, ot=0, positive=False):
        y = self.act(base, self.shape[x]); self.op(code, [x], [y], opts, ot)
        if positive: self.positive.add(y)
        return y
    def softmax(self, x):
        o = S.SoftmaxOptionsT(); o.beta = 1.0; return self.unary(BO.SOFTMAX, 'softmax', x, o, S.BuiltinOptions.SoftmaxOptions)
    def tanh(self, x): return self.unary(BO.TANH, 'tanh', x)
    def logistic(self, x): return self.unary(BO.LOGISTIC, 'logistic', x, positive=True)
    def gelu(self, x): return self.unary(BO.GELU, 'gelu', x, S.GeluOptionsT(), S.BuiltinOptions.GeluOptions)
    def rsqrt(self, x): return self.unary(BO.RSQRT, 'rsqrt', x)
    def transpose(self, x, perm):
        p = self.const('perm', np.array(perm, dtype=np.int32)); y = self.act('transpose', tuple(self.shape[x][i] for i in perm))
        self.op(BO.TRANSPOSE, [x, p], [y], S.TransposeOptionsT(), S.BuiltinOptions.TransposeOptions); return y
    def binary(self, code, base, a, c, opts, ot):
        sh = np.broadcast_shapes(self.shape[a], self.shape[c]); y = self.act(base, tuple(sh)); self.op(code, [a, c], [y], opts, ot); return y
    def add(self, a, c, act=0):
        o = S.AddOptionsT(); o.fusedActivationFunction = act; return self.binary(BO.ADD, 'add', a, c, o, S.BuiltinOptions.AddOptions)
    def sub(self, a, c, act=0):
        o = S.SubOptionsT(); o.fusedActivationFunction = act; return self.binary(BO.SUB, 'sub', a, c, o, S.BuiltinOptions.SubOptions)
    def mul(self, a, c, act=0):
        o = S.MulOptionsT(); o.fusedActivationFunction = act; return self.binary(BO.MUL, 'mul', a, c, o, S.BuiltinOptions.MulOptions)
    def mean(self, x, axes, keep=False):
        ax = self.const('mean_axis', np.array(axes, dtype=np.int32)); o = S.ReducerOptionsT(); o.keepDims = keep
        sh = self.shape[x]; osh = tuple((1 if i in axes else d) for i, d in enumerate(sh) if keep or i not in axes)
        y = self.act('mean', osh); self.op(BO.MEAN, [x, ax], [y], o, S.BuiltinOptions.ReducerOptions); return y
    def concat(self, xs, axis):
        o = S.ConcatenationOptionsT(); o.axis = axis; sh = list(self.shape[xs[0]]); sh[axis] = sum(self.shape[t][axis] for t in xs)
        y = self.act('concat', tuple(sh)); self.op(BO.CONCATENATION, list(xs), [y], o, S.BuiltinOptions.ConcatenationOptions); return y
    def strided_slice(self, x, begin, end, strides):
        bt = self.const('ss_begin', np.array(begin, dtype=np.int32)); et = self.const('ss_end', np.array(end, dtype=np.int32)); st = self.const('ss_strides', np.array(strides, dtype=np.int32))
        osh = tuple(len(range(b_, e_, s_)) for b_, e_, s_ in zip(begin, end, strides))
        y = self.act('strided_slice', osh); self.op(BO.STRIDED_SLICE, [x, bt, et, st], [y], S.StridedSliceOptionsT(), S.BuiltinOptions.StridedSliceOptions); return y
    def split(self, x, axis, num):
        ax = self.const('split_axis', np.array(axis, dtype=np.int32)); o = S.SplitOptionsT(); o.numSplits = num
        sh = list(self.shape[x]); sh[axis] //= num; ys = [self.act('split', tuple(sh)) for _ in range(num)]
        self.op(BO.SPLIT, [ax, x], ys, o, S.BuiltinOptions.SplitOptions); return ys
    # ---- unsupported float ops
    def relu(self, x): return self.unary(BO.RELU, 'relu', x)
    def abs(self, x): return self.unary(BO.ABS, 'abs', x, S.AbsOptionsT(), S.BuiltinOptions.AbsOptions)
    def neg(self, x): return self.unary(BO.NEG, 'neg', x, S.NegOptionsT(), S.BuiltinOptions.NegOptions)
    def maximum(self, a, c): return self.binary(BO.MAXIMUM, 'maximum', a, c, S.MaximumMinimumOptionsT(), S.BuiltinOptions.MaximumMinimumOptions)
    def finish(self, outputs, key=None):
        self.sg.outputs = list(outputs)
        if key is not None:
            nm = lambda t: self.sg.tensors[t].name.decode().split('/')[-1]
            self.b.signature(key, self.b.m.subgraphs.index(self.sg), [(f'arg{i}', t) for i, t in enumerate(self.sg.inputs)], [(f'out{i}', t) for i, t in enumerate(outputs)])
