"""Prototype mechanism monitor: op-position drift in TransformationPerformer."""
from ai_edge_quantizer import transformation_performer as tp
EVENTS = []
_orig_transform = tp.TransformationPerformer.transform_graph
_orig_apply = tp.TransformationPerformer._apply_single_transformation
def transform_graph(self, instructions, model):
    self._vf_orig = [list(sg.operators) for sg in model.subgraphs]
    self._vf_added = [[] for _ in model.subgraphs]
    self._vf_seen = [set(id(o) for o in sg.operators) for sg in model.subgraphs]
    return _orig_transform(self, instructions, model)
def apply(self, tinst, idx, model):
    inst = tinst.instructions[idx]; sgi = tinst.subgraph_id; sg = model.subgraphs[sgi]
    prod, cons, tid = inst.producer, list(inst.consumers), inst.tensor_id
    reg = self._transformation_registration; fn = reg[inst.transformation]; seen = {}
    def spy(ti):
        seen['ti'] = (ti.producer, list(ti.consumers), ti.tensor_id)
        # ground truth
        pos = {id(o): i for i, o in enumerate(sg.operators)}
        n0 = len(self._vf_orig[sgi])
        true_prod = -1
        if prod is not None and prod >= 0:
            obj = self._vf_orig[sgi][prod] if prod < n0 else (self._vf_added[sgi][prod - n0] if prod - n0 < len(self._vf_added[sgi]) else None)
            true_prod = pos.get(id(obj), -2) if obj is not None else -2
        if true_prod != ti.producer: EVENTS.append(('producer_drift', inst.transformation.name, prod, ti.producer, true_prod))
        for c, passed in zip(cons, ti.consumers):
            if c >= 0:
                t = pos[id(self._vf_orig[sgi][c])]
                if t != passed: EVENTS.append(('consumer_drift', inst.transformation.name, c, passed, t))
            else:
                last = sg.operators[passed]
                if ti.tensor_id in list(last.inputs): EVENTS.append(('graph_output_alias', inst.transformation.name, passed))
        return fn(ti)
    reg[inst.transformation] = spy
    try: r = _orig_apply(self, tinst, idx, model)
    finally: reg[inst.transformation] = fn
    for o in sg.operators:
        if id(o) not in self._vf_seen[sgi]: self._vf_seen[sgi].add(id(o)); self._vf_added[sgi].append(o)
    return r
def install():
    tp.TransformationPerformer.transform_graph = transform_graph
    tp.TransformationPerformer._apply_single_transformation = apply
