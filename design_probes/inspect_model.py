import sys, numpy as np
from ai_edge_quantizer.utils import tfl_flatbuffer_utils as fu
from ai_edge_litert import schema_py_generated as S
opname = {v:k for k,v in S.BuiltinOperator.__dict__.items() if not k.startswith('_')}
tname = {v:k for k,v in S.TensorType.__dict__.items() if not k.startswith('_')}
def dump(path_or_bytes):
    m = fu.read_model(path_or_bytes)
    print('version', m.version, 'nbuf', len(m.buffers), 'opcodes', [(opname[c.builtinCode], c.version, c.deprecatedBuiltinCode) for c in m.operatorCodes])
    for si, sg in enumerate(m.subgraphs):
        print(' subgraph', si, sg.name, 'inputs', list(sg.inputs), 'outputs', list(sg.outputs))
        for ti, t in enumerate(sg.tensors):
            b = m.buffers[t.buffer]
            q = t.quantization
            qs = None
            if q is not None and q.scale is not None:
                qs = (list(q.scale)[:3], list(q.zeroPoint)[:3], q.quantizedDimension)
            print('  t', ti, t.name, tname[t.type], list(t.shape) if t.shape is not None else None, 'sig', t.shapeSignature, 'buf', t.buffer, None if b.data is None else len(b.data), qs, 'isvar', t.isVariable)
        for oi, op in enumerate(sg.operators):
            print('  op', oi, opname[m.operatorCodes[op.opcodeIndex].builtinCode], list(op.inputs), list(op.outputs), type(op.builtinOptions).__name__, op.builtinOptions.__dict__ if op.builtinOptions else None)
    if m.signatureDefs:
        for s in m.signatureDefs:
            print(' sig', s.signatureKey, s.subgraphIndex, [(i.name, i.tensorIndex) for i in s.inputs], [(i.name, i.tensorIndex) for i in s.outputs])
    print(' metadata', [(x.name, x.buffer) for x in (m.metadata or [])])
if __name__ == '__main__':
    for p in sys.argv[1:]:
        print('=====', p); dump(p)
