import numpy as np, sys, collections, traceback, re, time, os
sys.path.insert(0, '/verif/design_probes')
from rgen import rand_model
from ai_edge_quantizer import quantizer, qtyping
from ai_edge_quantizer.utils import tfl_interpreter_utils as iu
import os; R = os.environ.get('AEQ_REPO', '/repo') + '/ai_edge_quantizer/recipes/'
recs = ['default_a8w8_recipe.json', 'default_a16w8_recipe.json', 'dynamic_wi8_afp32_recipe.json', 'default_af32w8float_recipe.json', 'default_af32w4float_recipe.json']
def data_for(m, n=2, seed=3):
    it = iu.create_tfl_interpreter(m); rr = it.get_signature_runner(); r2 = np.random.default_rng(seed); out = []
    for _ in range(n):
        out.append({k: (r2.integers(0, 5, size=dd['shape']).astype(np.int32) if dd['dtype'] == np.int32 else r2.normal(size=dd['shape']).astype(np.float32)) for k, dd in rr.get_input_details().items()})
    return out, it
stats = collections.Counter(); ex = {}
lo, hi = int(sys.argv[1]), int(sys.argv[2])
skip = set(tuple(x.split(':')) for x in sys.argv[3].split(',') if x) if len(sys.argv) > 3 else set()
import json
t0 = time.time()
for seed in range(lo, hi):
    if seed > lo:
        print('STAT ' + json.dumps({'stats': stats, 'ex': ex}), flush=True); print(f'DONE {seed-1}', flush=True); stats.clear(); ex.clear()
    try:
        m = rand_model(seed); d, it = data_for(m); fo = iu.invoke_interpreter_signature(it, d[0])
        if any(not np.all(np.isfinite(v)) for v in fo.values()): stats['gen_nonfinite'] += 1; continue
    except Exception as e:
        stats['GEN_FAIL ' + type(e).__name__ + ' ' + str(e)[:80]] += 1; ex.setdefault('gen', seed); continue
    for rec in recs:
        if (str(seed), rec) in skip: continue
        try:
            qt = quantizer.Quantizer(m, R + rec); cal = qt.calibrate(d) if qt.need_calibration else None
            qm = bytes(qt.quantize(cal).quantized_model)
        except Exception as e:
            key = f'{rec[:-12]} QUANT_EXC {type(e).__name__} ' + re.sub(r"b'[^']*'|[\w/]+_\d+", 'T', str(e))[:90]; stats[key] += 1; ex.setdefault(key, seed); continue
        print(f'CASE {seed} {rec}', flush=True)
        try:
            it2 = iu.create_tfl_interpreter(qm); qo = iu.invoke_interpreter_signature(it2, d[0]); stats[f'{rec[:-12]} ok'] += 1
        except Exception as e:
            key = f'{rec[:-12]} INTERP_EXC {type(e).__name__} ' + re.sub(r'\d+', 'N', str(e))[-110:]; stats[key] += 1; ex.setdefault(key, seed)


print('STAT ' + json.dumps({'stats': stats, 'ex': ex}), flush=True); print(f'DONE {hi-1}', flush=True)
