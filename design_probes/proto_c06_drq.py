"""Prototype C06 (b): dynamic-range single-op error vs analytic bound."""
import numpy as np, sys, collections
sys.path.insert(0, '/verif/design_probes')
from mb import *; from ops import G
from proto_c06 import refmodel, decode
from ai_edge_quantizer import quantizer, qtyping
from ai_edge_quantizer.utils import tfl_interpreter_utils as iu
from tensorflow.lite.tools import flatbuffer_utils as fu
R = '/repo/ai_edge_quantizer/recipes/'
T = qtyping.TensorQuantizationConfig; C = qtyping.OpQuantizationConfig; GR = qtyping.QuantGranularity; CP = qtyping.ComputePrecision; OP = qtyping.TFLOperationName
def mk(fn, in_shape, seed, ids=False):
    rng = np.random.default_rng(seed); b = B(); g = G(b, 'main', '', rng)
    x = g.inp(in_shape, S.TensorType.INT32 if ids else S.TensorType.FLOAT32, name='x'); g.finish([fn(g, x)], 'serving_default'); return b.build()
cases = {
 'FC': (lambda g, x: g.fc(x, 5), (3, 16)), 'FC3d': (lambda g, x: g.fc(x, 5, keep=True), (2, 3, 16)),
 'CONV': (lambda g, x: g.conv(x, 3), (2, 5, 5, 2)), 'DW': (lambda g, x: g.dwconv(x, 2), (2, 5, 5, 2)),
 'TCONV': (lambda g, x: g.tconv(x, 3), (2, 3, 3, 2)), 'BMM': (lambda g, x: g.bmm(x), (2, 3, 8)), 'BMMadj': (lambda g, x: g.bmm(x, adj_y=True), (2, 3, 8)),
}
for name, (fn, shp) in cases.items():
    for bits, gran in [(8, 'CHANNELWISE'), (8, 'TENSORWISE'), (4, 'CHANNELWISE')]:
        worst = 0; worst_abs = 0; n = 0; status = 'ok'
        for seed in range(30):
            m = mk(fn, shp, seed)
            qt = quantizer.Quantizer(m)
            try: qt.update_quantization_recipe('.*', OP.ALL_SUPPORTED, C(None, T(bits, True, GR(gran)), CP.INTEGER))
            except ValueError: status = 'refused'; break
            qm = bytes(qt.quantize().quantized_model); ref, nrep = refmodel(m, qm)
            if nrep == 0: status = 'not quantized (fallback)'; break
            fq = fu.read_model_from_bytearray(bytearray(qm)); sg = fq.subgraphs[0]
            # weights decoded
            wt = [t for t in sg.tensors if t.type in (S.TensorType.INT8, S.TensorType.INT4)][0]; wdeq = decode(wt, fq.buffers[wt.buffer])
            r2 = np.random.default_rng(seed + 100)
            for _ in range(3):
                x = (r2.normal(size=shp) * r2.choice([0.2, 1, 7])).astype(np.float32)
                try:
                    a = iu.invoke_interpreter_signature(iu.create_tfl_interpreter(qm), {'arg0': x})['out0']; b_ = iu.invoke_interpreter_signature(iu.create_tfl_interpreter(ref), {'arg0': x})['out0']
                except Exception as e: status = 'interp: ' + str(e)[-80:]; break
                # crude global bound: per batch item act scale = max|x_b|/127 ; sum over all |w| of largest output channel
                xb = x.reshape(x.shape[0], -1) if name not in ('FC',) else x
                act_scale = np.max(np.abs(x.reshape(x.shape[0], -1)), axis=1) / 127.0
                if name.startswith('FC'): act_scale = np.max(np.abs(x.reshape(-1, x.shape[-1])), axis=1) / 127.0
                if name.startswith('BMM'): act_scale = np.max(np.abs(x.reshape(-1, x.shape[-1])), axis=1) / 127.0
                sumw = np.max(np.sum(np.abs(wdeq.reshape(wdeq.shape[0], -1)), axis=1)) if not name.startswith('BMM') and name != 'DW' else np.sum(np.abs(wdeq))  # loose
                bound = 0.5 * float(np.max(act_scale)) * float(sumw) + 1e-5
                err = float(np.max(np.abs(a.astype(np.float64) - b_))); worst = max(worst, err / bound); worst_abs = max(worst_abs, err / max(1e-9, float(np.max(np.abs(b_))))); n += 1
            if status != 'ok': break
        print(f'{name:7s} w{bits} {gran:11s} {status:28s} n={n:3d} worst err/bound={worst:.3f} worst err/|ref|max={worst_abs:.4f}')
