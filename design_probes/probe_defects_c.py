import numpy as np, sys, copy, json, traceback
sys.path.insert(0, '/verif/design_probes')
from mb import *; from ops import G
from ai_edge_quantizer import quantizer, recipe, qtyping, model_modifier, model_validator
from ai_edge_quantizer.utils import tfl_interpreter_utils as iu, validation_utils, tfl_flatbuffer_utils as fu
import inspect_model
rng = np.random.default_rng(0)
R = '/repo/ai_edge_quantizer/recipes/'
OP = qtyping.TFLOperationName
def T(name, f):
    print('---', name)
    try: f()
    except Exception as e: print('  EXC', type(e).__name__, str(e)[:300]); traceback.print_exc(limit=3)
def data_for(m, n=2, seed=3):
    it = iu.create_tfl_interpreter(m); rr = it.get_signature_runner(); r2 = np.random.default_rng(seed); out = []
    for _ in range(n):
        out.append({k: (r2.integers(0, 5, size=dd['shape']).astype(np.int32) if dd['dtype'] == np.int32 else r2.normal(size=dd['shape']).astype(np.float32)) for k, dd in rr.get_input_details().items()})
    return out
def q(m, rec=None, rules=None, dump=False):
    qt = quantizer.Quantizer(m, rec)
    for r in rules or []: qt.update_quantization_recipe(*r)
    d = data_for(m); cal = qt.calibrate(d) if qt.need_calibration else None
    res = qt.quantize(cal)
    if dump: inspect_model.dump(bytes(res.quantized_model))
    fo = iu.invoke_interpreter_signature(iu.create_tfl_interpreter(m), d[0]); it = iu.create_tfl_interpreter(bytes(res.quantized_model)); qo = iu.invoke_interpreter_signature(it, d[0])
    for k in fo:
        det = [x for x in it.get_signature_runner().get_output_details().values()]
        print('   out', k, 'float', np.round(fo[k].ravel()[:5], 3), 'quant', qo[k].ravel()[:5], qo[k].dtype)
    return qt, res
def tcfg(bits, sym, gran='TENSORWISE'): return qtyping.TensorQuantizationConfig(bits, sym, qtyping.QuantGranularity(gran))
def srq(ab=8, asym=False, wb=8, wg='CHANNELWISE'): return qtyping.OpQuantizationConfig(activation_tensor_config=tcfg(ab, asym), weight_tensor_config=tcfg(wb, True, wg), compute_precision=qtyping.ComputePrecision.INTEGER)
def bmm_const():
    b = B(); g = G(b, 'main', '', rng); x = g.inp((2, 3, 8), name='x'); g.finish([g.bmm(x)], 'serving_default'); m = b.build()
    for wg in ['CHANNELWISE', 'TENSORWISE']:
        print('  BMM const SRQ', wg); q(m, rules=[('.*', OP.BATCH_MATMUL, srq(wg=wg))], dump=(wg == 'TENSORWISE'))
T('BMM const SRQ', bmm_const)
def dupnames():
    b = B(); g = G(b, 'main', '', rng); x = g.inp((1, 8), name='x'); a = g.relu(x); t = g.tanh(a); l = g.logistic(a); c = g.concat([a, l], 1); g.finish([t, c], 'serving_default'); m = b.build()
    q(m, rules=[('.*', OP.TANH, srq()), ('.*', OP.CONCATENATION, srq()), ('.*', OP.LOGISTIC, srq())], dump=True)
T('two consumer groups -> duplicate _quantized names?', dupnames)
def emptybuf():
    b = B(); g = G(b, 'main', '', rng); x = g.inp((1, 8), name='x'); y = g.fc(x, 4)
    e = g.const('empty', np.zeros((0,), dtype=np.float32)); z = g.concat([y, g.reshape(e, [1, 0])], 1)  # zero-size const
    g.finish([z], 'serving_default'); m = b.build()
    print('  float ok', iu.invoke_interpreter_signature(iu.create_tfl_interpreter(m), data_for(m)[0]))
    qt = quantizer.Quantizer(m, R + 'default_af32w8float_recipe.json'); params = qt._get_quantization_params(None)
    small = qt.quantize().quantized_model
    mm = model_modifier.ModelModifier(m); src = mm._process_constant_map; mm._process_constant_map = lambda qm: (src(qm), 2**31)[1]
    large = mm.modify_model(params)
    from ai_edge_litert import schema_py_generated as S2
    raw = S2.Model.GetRootAs(large, 0)
    for i in range(raw.BuffersLength()):
        bf = raw.Buffers(i); print('   buf', i, bf.Offset(), bf.Size(), bf.DataLength())
    d = data_for(m)[0]
    print('  ', iu.invoke_interpreter_signature(iu.create_tfl_interpreter(bytes(small)), d), iu.invoke_interpreter_signature(iu.create_tfl_interpreter(bytes(large)), d))
T('large path with empty constant', emptybuf)
def val_int4():
    b = B(); g = G(b, 'main', '', rng); x = g.inp((1, 8), name='x'); g.finish([g.fc(x, 4)], 'serving_default'); m = b.build()
    for rec in ['default_af32w4float_recipe.json', 'default_a16w8_recipe.json', 'default_a8w8_recipe.json']:
        qt = quantizer.Quantizer(m, R + rec); cal = qt.calibrate(data_for(m)) if qt.need_calibration else None; qt.quantize(cal); v = qt.validate(); print('  ', rec, v.get_signature_comparison_result())
T('validate int4 weights', val_int4)
def rt_noweight():
    b = B(); g = G(b, 'main', '', rng); x = g.inp((1, 8), name='x'); g.finish([g.fc(x, 4)], 'serving_default'); m = b.build()
    qt = quantizer.Quantizer(m); qt.update_quantization_recipe('.*', OP.ALL_SUPPORTED, None); r = qt.get_quantization_recipe(); print('  ', r)
    quantizer.Quantizer(m, json.loads(json.dumps(r)))
T('round trip recipe without weight config', rt_noweight)
def shared_const():
    b = B(); g = G(b, 'main', '', rng); x = g.inp((1, 8), name='x'); w = g.const('w', g.w((8, 8))); a = g.fc(x, 8, w=w, bias=False); c = g.fc(a, 8, w=w, bias=False); g.finish([c], 'serving_default'); m = b.build()
    print(' same tensor 2 consumers, both wo8'); q(m, R + 'default_af32w8float_recipe.json', dump=True)
    print(' same tensor: fc#1 8bit wo, fc#2 4bit wo')
    wo = lambda bits: qtyping.OpQuantizationConfig(weight_tensor_config=tcfg(bits, False, 'CHANNELWISE'), compute_precision=qtyping.ComputePrecision.FLOAT, explicit_dequantize=True)
    names = [t.name.decode() for t in fu.read_model(m).subgraphs[0].tensors]; print(names)
    try: q(m, rules=[(names[2], OP.FULLY_CONNECTED, wo(8)), (names[3], OP.FULLY_CONNECTED, wo(4))], dump=True)
    except Exception as e: print('  EXC', type(e).__name__, str(e)[:200])
    print(' same tensor: fc#1 drq8, fc#2 float')
    drq = qtyping.OpQuantizationConfig(weight_tensor_config=tcfg(8, True, 'CHANNELWISE'), compute_precision=qtyping.ComputePrecision.INTEGER)
    try: q(m, rules=[(names[2], OP.FULLY_CONNECTED, drq)], dump=True)
    except Exception as e: print('  EXC', type(e).__name__, str(e)[:200])
    print(' same tensor: fc#1 drq8, fc#2 wo8 sym')
    wos = qtyping.OpQuantizationConfig(weight_tensor_config=tcfg(8, True, 'CHANNELWISE'), compute_precision=qtyping.ComputePrecision.FLOAT, explicit_dequantize=True)
    try: q(m, rules=[(names[2], OP.FULLY_CONNECTED, drq), (names[3], OP.FULLY_CONNECTED, wos)], dump=True)
    except Exception as e: print('  EXC', type(e).__name__, str(e)[:200])
T('shared constant tensor', shared_const)
