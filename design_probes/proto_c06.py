"""Prototype C06: reference model = input model with dequantized constants; whole-model compare (weight-only/fp16), single-op DRQ bound."""
import numpy as np, sys, collections
sys.path.insert(0, '/verif/design_probes')
from mb import *; from ops import G
from rgen import rand_model
from ai_edge_quantizer import quantizer, qtyping, algorithm_manager
from ai_edge_quantizer.utils import tfl_interpreter_utils as iu
from tensorflow.lite.tools import flatbuffer_utils as fu
R = '/repo/ai_edge_quantizer/recipes/'
TT = S.TensorType
def decode(t, buf):
    raw = np.asarray(buf.data, dtype=np.uint8).tobytes(); n = int(np.prod(t.shape)) if len(t.shape) else 1
    if t.type == TT.INT4:
        b = np.frombuffer(raw, dtype=np.uint8); lo = (b & 0x0F).astype(np.int8); hi = (b >> 4).astype(np.int8)
        v = np.stack([lo, hi], 1).reshape(-1)[:n]; v = np.where(v > 7, v - 16, v).astype(np.int8); assert len(raw) == (n + 1) // 2, (len(raw), n)
    elif t.type == TT.INT8: v = np.frombuffer(raw, dtype=np.int8); assert len(v) == n
    elif t.type == TT.FLOAT16: return np.frombuffer(raw, dtype=np.float16).astype(np.float32).reshape(t.shape)
    else: raise ValueError(t.type)
    v = v.reshape(t.shape); q = t.quantization; sc = np.asarray(q.scale, dtype=np.float32); zp = np.asarray(q.zeroPoint, dtype=np.int32)
    if len(sc) > 1:
        shp = [1] * v.ndim; shp[q.quantizedDimension] = -1; sc = sc.reshape(shp); zp = zp.reshape(shp)
    return ((v.astype(np.int32) - zp).astype(np.float32) * sc).astype(np.float32)
def refmodel(src, out):
    fs = fu.read_model_from_bytearray(bytearray(src)); fo = fu.read_model_from_bytearray(bytearray(out)); n = 0
    for sgi, sg in enumerate(fs.subgraphs):
        for ti, t in enumerate(sg.tensors):
            to = fo.subgraphs[sgi].tensors[ti]
            if to.type != t.type and fs.buffers[t.buffer].data is not None:
                d = decode(to, fo.buffers[to.buffer]); assert t.type == TT.FLOAT32
                fs.buffers[t.buffer].data = np.frombuffer(d.astype(np.float32).tobytes(), dtype=np.uint8); n += 1
    return bytes(fu.convert_object_to_bytearray(fs)), n
def inputs_for(m, seed, n=3):
    it = iu.create_tfl_interpreter(m); rr = it.get_signature_runner(); r2 = np.random.default_rng(seed)
    return [{k: (r2.integers(0, 5, size=dd['shape']).astype(np.int32) if dd['dtype'] == np.int32 else (r2.normal(size=dd['shape']) * r2.choice([0.3, 1, 5])).astype(np.float32)) for k, dd in rr.get_input_details().items()} for _ in range(n)]
T = qtyping.TensorQuantizationConfig; C = qtyping.OpQuantizationConfig; GR = qtyping.QuantGranularity; CP = qtyping.ComputePrecision
def fp16_recipe(qt): qt.update_quantization_recipe('.*', qtyping.TFLOperationName.ALL_SUPPORTED, C(None, T(16, True, dtype=qtyping.TensorDataType.FLOAT), CP.FLOAT, True), algorithm_manager.AlgorithmName.FLOAT_CASTING)
def main():
    global_worst = 0
    stats = collections.Counter(); worst = 0
    for seed in range(400):
        try: m = rand_model(seed); ins = inputs_for(m, seed); iu.invoke_interpreter_signature(iu.create_tfl_interpreter(m), ins[0])
        except Exception: continue
        for rec in ['default_af32w8float_recipe.json', 'default_af32w4float_recipe.json', 'fp16']:
            qt = quantizer.Quantizer(m) if rec == 'fp16' else quantizer.Quantizer(m, R + rec)
            if rec == 'fp16': fp16_recipe(qt)
            try: qm = bytes(qt.quantize().quantized_model)
            except Exception as e: stats['quant_exc'] += 1; continue
            ref, nrep = refmodel(m, qm)
            if nrep == 0: stats['trivial'] += 1; continue
            i1 = iu.create_tfl_interpreter(qm); i2 = iu.create_tfl_interpreter(ref)
            for x in ins:
                a = iu.invoke_interpreter_signature(i1, x); b = iu.invoke_interpreter_signature(i2, x)
                for k in a:
                    err = float(np.max(np.abs(a[k].astype(np.float64) - b[k]))) / max(1.0, float(np.max(np.abs(b[k])))); worst = max(worst, err)
                    stats['out_checked'] += 1
                    if err > 1e-4: stats['MISMATCH'] += 1; print('mismatch', seed, rec, k, err)
    print(dict(stats), 'worst rel err', worst)
if __name__ == '__main__': main()
