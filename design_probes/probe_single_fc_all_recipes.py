import numpy as np, sys
sys.path.insert(0, '/verif/design_probes')
from mb import *
from ai_edge_quantizer import quantizer, recipe
from ai_edge_quantizer.utils import tfl_interpreter_utils as iu
import inspect_model

rng = np.random.default_rng(0)
b = B(); sg = b.subgraph('main')
x = b.act(sg, 'x', [1, 8]); w = b.const(sg, 'w', rng.normal(size=(4, 8)).astype(np.float32)); bias = b.const(sg, 'b', rng.normal(size=(4,)).astype(np.float32))
y = b.act(sg, 'y', [1, 4])
o, ot = fc_opts()
b.op(sg, BO.FULLY_CONNECTED, [x, w, bias], [y], o, ot)
sg.inputs = [x]; sg.outputs = [y]
b.signature('serving_default', 0, [('x', x)], [('y', y)])
model = b.build()
it = iu.create_tfl_interpreter(model)
xin = rng.normal(size=(1, 8)).astype(np.float32)
out = iu.invoke_interpreter_signature(it, {'x': xin}, 'serving_default')
print('float out', out)
import os
recipes = '/repo/ai_edge_quantizer/recipes/'
for r in ['default_a8w8_recipe.json', 'default_a16w8_recipe.json', 'dynamic_wi8_afp32_recipe.json', 'default_af32w8float_recipe.json', 'default_af32w4float_recipe.json']:
    qt = quantizer.Quantizer(model, recipes + r)
    cal = qt.calibrate([{'x': xin}], 'serving_default') if qt.need_calibration else None
    res = qt.quantize(cal)
    print('====', r, len(res.quantized_model))
    inspect_model.dump(bytes(res.quantized_model))
    it2 = iu.create_tfl_interpreter(bytes(res.quantized_model))
    out2 = iu.invoke_interpreter_signature(it2, {'x': xin}, 'serving_default')
    print('q out', out2)
