#!/bin/bash
# tools/seed_regress.sh -- re-runs every kept seeded break (seeded/<name>/patch.diff) in a scratch worktree against the FIRST check
# recorded in its meta.json caught_by list (quick tier) and reports the ones that are no longer caught.
cd "$(dirname "$0")/.."
S=/tmp/aeq_seedreg_$$
for d in seeded/*/; do
  n=$(basename $d)
  c=$(jq -r '.caught_by[0] // empty' $d/meta.json)
  [ -z "$c" ] && { echo "SKIP $n (recorded as not caught)"; continue; }
  rm -rf "$S"; git -C /repo worktree add -q --detach "$S" HEAD || exit 2
  ( cd "$S" && git apply /verif/$d/patch.diff ) || { echo "NOAPPLY $n"; git -C /repo worktree remove --force "$S"; continue; }
  AEQ_REPO="$S" ./check "$c" quick > /tmp/seedreg_$$.log 2>&1; rc=$?
  v=$(grep -E "HELD|VIOLATED|INCONCLUSIVE" /tmp/seedreg_$$.log | tail -1 | grep -o "violations=[0-9]*")
  if [ $rc -eq 1 ]; then echo "caught $n by $c ($v)"; else echo "NOT-CAUGHT $n by $c rc=$rc"; fi
  git -C /repo worktree remove --force "$S"; git -C /repo worktree prune
done
rm -f /tmp/seedreg_$$.log
