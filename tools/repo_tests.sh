#!/bin/bash
# Runs the repository's baseline suite with the verification guard OFF and compares with /root/.vp/BASELINE.json.
REPO="${1:-/repo}"
OUT=$(mktemp /tmp/aeq_junit.XXXXXX.xml)
cd "$REPO" && env -u AI_EDGE_QUANTIZER_VERIF /venv/bin/python -m pytest -ra -q -p no:cacheprovider --timeout=900 --continue-on-collection-errors --junitxml="$OUT" >/dev/null 2>&1
/venv/bin/python - "$OUT" <<'P'
import json, sys, xml.etree.ElementTree as ET
base = set(json.load(open('/root/.vp/BASELINE.json'))['stable_pass'])
passed = set()
for tc in ET.parse(sys.argv[1]).getroot().iter('testcase'):
    if not any(ch.tag in ('failure', 'error', 'skipped') for ch in tc):
        passed.add(f"{tc.get('classname')}::{tc.get('name')}")
missing = sorted(base - passed)
print(f'baseline stable_pass={len(base)} passed_now={len(passed)} missing_from_baseline={len(missing)}')
for m in missing[:20]: print('  MISSING', m)
sys.exit(1 if missing else 0)
P
rc=$?; rm -f "$OUT"; exit $rc
