#!/bin/bash
# tools/mut_all.sh  -- runs the in-house mutation catalogue (seeded_own/*.sh) against the checks expected to catch each.
# benign_* entries are behaviour-preserving variants: every check must stay HELD on them.
cd "$(dirname "$0")/.."
while read -r f cs; do
  echo "######## $f -> $cs"
  tools/mut.sh "$(pwd)/seeded_own/$f.sh" $cs 2>&1 | grep -E "baseline|==|VIOLATED|HELD|INCONCL|PATCH" | head -12
done <<'L'
m01_drop_zp C17 C05
m02_load_qsvs_nocopy C09
m03_smoothing C09
m04_star_append C11
m05_unsupported_shadows C11 C03
m06_rewire_all C02 C03
m07_bias_scale C04
m08_softmax16_zp C04
m09_bmm_adj C04 C06
m10_transpose_own_stats C04
m11_calib_twice C09
m12_todict_falsy C12
m13_narrow_range C17 C05
m14_fp16_astype C05 C06
m15_sig_input_rewire C02
m16_pad8 C16
m17_nibble C05
m18_fcaxis C04
m19_validator_pop_get C18
benign_refactor_names C10 C16
benign_no_dq_q_elimination C01 C02 C03 C04 C07 C19
L
