#!/bin/bash
# tools/run_all.sh <quick|thorough> [seed]  -- runs every claimed check sequentially, prints one summary line each.
TIER="${1:-quick}"; export VERIF_SEED="${2:-0}"
cd "$(dirname "$0")/.."; mkdir -p .work
for p in $(/venv/bin/python -c "import json; print(' '.join(c['property_id'] for c in json.load(open('MANIFEST.json'))['checks']))"); do
  ./check $p $TIER > .work/last_$p.log 2>&1; rc=$?
  echo "rc=$rc $(grep -E "^$p $TIER" .work/last_$p.log | cut -c1-230)"
  grep -E "^VIOLATION|^  inconclusive" .work/last_$p.log | head -3
done
