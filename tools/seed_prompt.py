"""tools/seed_prompt.py <property id> <worktree> <suffix> <prompt file> [<avoid text>] [<file the change must be in>]
Writes the prompt handed to an independent sub-agent that is asked for one seeded break: ONLY the property text and
its scratch worktree, nothing from /verif."""
import json
import sys
pid, wt, suffix, out = sys.argv[1:5]
avoid = sys.argv[5] if len(sys.argv) > 5 else ''
site = sys.argv[6] if len(sys.argv) > 6 else ''
p = next(d for d in map(json.loads, open('/verif/properties.jsonl')) if d['id'] == pid)
T = '''You are helping validate a verification harness by producing ONE realistic regression ("seeded break") in a Python library.

Your scratch git worktree of the library (google-ai-edge/ai-edge-quantizer) is at {wt} . Work ONLY inside {wt} (never touch /repo, never look at /verif, and do NOT use `git stash` -- the stash is shared between worktrees; use plain file edits and `git diff` / `git checkout -- <file>`).
Run python as: cd {wt} && PYTHONPATH={wt} TF_CPP_MIN_LOG_LEVEL=3 /venv/bin/python ...
The library's test suite is run with: cd {wt} && /venv/bin/python -m pytest -q -p no:cacheprovider --timeout=900 --continue-on-collection-errors ai_edge_quantizer  (takes a few minutes; on the unchanged tree 519 tests pass, 11 mnist tests fail and 17 files have collection errors from duplicate basenames -- what matters is that the set of passing tests is unchanged by your patch).
There is no network.

The property the library is supposed to guarantee (id {pid}):
TITLE: {title}
STATEMENT: {statement}
QUANTIFIED OVER: {quant}
Relevant files: {files}

Task: make a SMALL, realistic source change to the library (the kind of thing a maintainer could plausibly commit during a refactor, optimisation or bug fix: an off-by-one, a wrong key, a dropped copy, a condition that is slightly too narrow/wide, a cache, an index/identity confusion, a wrong dtype...) such that
 1. the library still imports and the whole existing test suite still passes (same tests passing as before), and
 2. the property above is BROKEN for some inputs, and
 3. the break needs something SPECIFIC to manifest (a particular operator type, option, shape, topology, value range, recipe combination or call history) -- it must NOT show on every model/recipe, and it must not be a crash on every call; silent wrong results are preferred over exceptions.
{avoid}
{site}
Do not edit tests. Do not add environment-variable switches. Change library source files only (ideally one hunk, at most ~15 changed lines).

Deliver in {wt}:
 - the change left applied in the worktree's working tree (uncommitted), and ALSO saved as {wt}/patch.diff (output of `git diff -- ai_edge_quantizer` taken from {wt});
 - {wt}/demo_{low}.py : a self-contained script (it may build a small TFLite model programmatically with ai_edge_litert.schema_py_generated + flatbuffers / tensorflow.lite.tools.flatbuffer_utils, or use a model under {wt}/ai_edge_quantizer/tests/models/) that exercises the public API, checks the property on a specific input, prints what it observed, and exits 0 when the property holds (i.e. on the unpatched tree) and exits 1 when it is violated (i.e. with your patch). Verify both: run it with the patch applied (must exit 1), then `git apply -R patch.diff`, run it again (must exit 0), then re-apply the patch.
 - run the full test suite with the patch applied and confirm the set of passing tests is unchanged.
In your final message report: the file/function changed, what specific inputs are needed for the break to manifest, the demo's output with and without the patch, and the test-suite result. Keep the final message under 250 words.
'''
open(out, 'w').write(T.format(
    wt=wt, pid=pid, low=(pid + suffix).lower(), title=p['title'], statement=p['statement'], quant=p['quantifier']['text'],
    files=', '.join(p['anchors']['files']),
    site=('The change must be made in the file ' + site + ' (earlier studies of this library never touched it); pick whatever function in it serves best.') if site else '',
    avoid=('Do not repeat these already-studied ideas for this property: ' + avoid + '. Pick a different site/mechanism.') if avoid else ''))
