"""Copy one observed violation (from the last run's shard logs) into findings/witness/<name>.json."""
import glob, json, subprocess, sys
prop, tier, kind, featsub, name = sys.argv[1:6]
head = subprocess.run(['git', '-C', '/repo', 'rev-parse', '--short', 'HEAD'], capture_output=True, text=True).stdout.strip()
for f in sorted(glob.glob(f'/verif/.work/{prop}_{tier}_0/*.jsonl')):
    for l in open(f):
        try: e = json.loads(l)
        except Exception: continue
        if e.get('ev') == 'violation' and kind in e['v']['kind'] and featsub in json.dumps(e['v']['features']):
            json.dump({'property': prop, 'tier': tier, 'seed': 0, 'case': e['case'], 'repo_commit': head,
                       'replay': f'./check {prop} {tier} --case {e["case"]}   (on repo commit {head})', 'violation': e['v']},
                      open(f'/verif/findings/witness/{name}.json', 'w'), indent=1, default=str)
            print('saved', name, 'case', e['case']); sys.exit(0)
print('NOT FOUND', name); sys.exit(1)
