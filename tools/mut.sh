#!/bin/bash
# tools/mut.sh <patch-file> <check ...>   e.g. tools/mut.sh seeded/x/patch.diff C05 C04
# Applies a patch to a scratch copy of /repo (outside /repo and /verif), runs the repo tests and the given quick checks there.
PATCH="$1"; shift
S=/tmp/aeq_mut_$$
rm -rf "$S"; git -C /repo worktree add -q --detach "$S" HEAD || exit 2
( cd "$S" && if [[ "$PATCH" == *.sh ]]; then bash "$PATCH"; else git apply "$PATCH"; fi && ! git diff --quiet ) || { echo "PATCH DOES NOT APPLY"; git -C /repo worktree remove --force "$S"; exit 2; }
echo "== repo tests on mutated copy"; /verif/tools/repo_tests.sh "$S" | head -5
for c in "$@"; do echo "== $c"; AEQ_REPO="$S" /verif/check "$c" quick > /tmp/mut_$$.log 2>&1; grep -E "^\s+\[" /tmp/mut_$$.log | head -3 | cut -c1-260; grep -E "HELD|VIOLATED|INCONCLUSIVE" /tmp/mut_$$.log | tail -1; rm -f /tmp/mut_$$.log; done
git -C /repo worktree remove --force "$S"; git -C /repo worktree prune
