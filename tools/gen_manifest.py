"""Writes MANIFEST.json from the property modules that exist (keeps it valid at all times)."""
import importlib.util, json, os, re
ROOT = os.path.dirname(os.path.dirname(os.path.abspath(__file__)))
PROPS = [json.loads(l) for l in open(os.path.join(ROOT, 'properties.jsonl'))]
META = json.load(open(os.path.join(ROOT, 'tools', 'manifest_meta.json')))
checks, na = [], []
for p in PROPS:
  pid = p['id']
  path = os.path.join(ROOT, 'vf', 'props', pid.lower() + '.py')
  meta = META['checks'].get(pid)
  if os.path.exists(path) and meta:
    checks.append({
        'property_id': pid,
        'quick_cmd': f'./check {pid} quick',
        'thorough_cmd': f'./check {pid} thorough',
        'evidence_file': f'evidence/{pid}.json',
        'replay_cmd_template': f'./check {pid} --replay {{path}}',
        'engine': 'vf-runtime-monitor',
        'level_claimed': {'category': meta['category'], 'text': meta['text'], 'design_ref': meta['design_ref']},
        'level_note': meta['note'],
        'technique': meta['technique'],
    })
  else:
    na.append({'property_id': pid, 'reason': META['not_built_reason']})
man = {
    'version': 1,
    'setup_cmd': './setup.sh',
    'hooks': META['hooks'],
    'engines': [{'name': 'vf-runtime-monitor', 'path': 'vf/', 'serves_properties': [c['property_id'] for c in checks],
                 'kind_free_text': 'runtime monitoring: generated workloads drive the real quantizer in sharded child processes; '
                                   'oracles at the API boundary, icontract post-conditions on the arithmetic kernel, mechanism/reach '
                                   'monitors, sandboxed LiteRT interpreter with call/return event log; known-findings matcher'}],
    'checks': checks,
    'notes': META['notes'],
    'not_applicable': na,
}
json.dump(man, open(os.path.join(ROOT, 'MANIFEST.json'), 'w'), indent=1)
print('checks:', [c['property_id'] for c in checks], 'not claimed:', [n['property_id'] for n in na])
