#!/bin/bash
# tools/reach_audit.sh [tier] [seed] -- runs every check with line coverage of the library switched on in the
# children and prints, per library file, the lines NO workload executed.  Not a verdict: a planning aid that shows
# where a change could not be observed by any monitor because no workload goes there.
cd "$(dirname "$0")/.."; TIER=${1:-quick}; SEED=${2:-0}
D=$(mktemp -d /tmp/reach.XXXXXX); export VERIF_COVERAGE=$D/cov
for i in $(seq -w 1 19); do VERIF_SEED=$SEED ./check C$i $TIER > /dev/null 2>&1; done
unset VERIF_COVERAGE
cd $D && /venv/bin/python -m coverage combine --data-file=$D/cov $D/cov.* > /dev/null 2>&1
/venv/bin/python -m coverage report --data-file=$D/cov -m --skip-covered 2>/dev/null | grep -v "^WARNING"
rm -rf $D
