#!/bin/bash
# tools/seed_eval.sh <name> <srcdir> <check> [<check> ...]
# Confirms a seeded break in a fresh scratch worktree of /repo (demo passes without / fails with the patch, repo tests unchanged),
# then runs the given quick checks against the patched worktree.  Keeps patch + demo under seeded/<name>/.
NAME="$1"; SRC="$2"; shift 2
S=/tmp/sv_$NAME; rm -rf "$S"; git -C /repo worktree prune; git -C /repo worktree add -q --detach "$S" HEAD || exit 2
DEMO=$(ls "$SRC"/demo_*.py | head -1)
cp "$DEMO" "$S/"; D=$(basename "$DEMO")
run_demo() { ( cd "$S" && PYTHONPATH="$S" TF_CPP_MIN_LOG_LEVEL=3 timeout 600 /venv/bin/python "$D" > /tmp/sv_demo_$$.log 2>&1; echo $? ); }
RC0=$(run_demo); echo "demo without patch: exit $RC0"
( cd "$S" && git apply "$SRC/patch.diff" ) || { echo "PATCH DOES NOT APPLY"; git -C /repo worktree remove --force "$S"; exit 2; }
RC1=$(run_demo); echo "demo with patch: exit $RC1"; grep -v -E "^I0000|^WARNING|oneDNN|rebuild|^$" /tmp/sv_demo_$$.log | head -6 | cut -c1-300
TESTS=$(/verif/tools/repo_tests.sh "$S" | head -3); echo "repo tests: $TESTS"
mkdir -p /verif/seeded/$NAME; cp "$SRC/patch.diff" /verif/seeded/$NAME/patch.diff; cp "$DEMO" /verif/seeded/$NAME/
RESULTS=""
for c in "$@"; do
  AEQ_REPO="$S" /verif/check "$c" quick > /tmp/sv_chk_$$.log 2>&1; rc=$?
  echo "== $c rc=$rc"; grep -E "^\s+\[" /tmp/sv_chk_$$.log | head -3 | cut -c1-300; grep -E "HELD|VIOLATED|INCONCLUSIVE" /tmp/sv_chk_$$.log | tail -1
  RESULTS="$RESULTS $c:rc=$rc"
done
echo "{\"demo_exit_without\": $RC0, \"demo_exit_with\": $RC1, \"repo_tests\": \"$(echo $TESTS | tr '"' "'")\", \"checks\": \"$RESULTS\"}" > /verif/seeded/$NAME/last_eval.json
rm -f /tmp/sv_demo_$$.log /tmp/sv_chk_$$.log
git -C /repo worktree remove --force "$S"; git -C /repo worktree prune
