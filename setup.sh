#!/bin/bash
# Idempotent, offline: puts icontract (runtime contracts) beside the repository's interpreter.
# If the wheelhouse is missing the checks fall back to the in-tree contract shim (vf/monitors/contracts.py).
cd "$(dirname "$0")"
mkdir -p .deps evidence
if [ ! -d .deps/icontract ]; then
  PIP_NO_INDEX=1 /venv/bin/pip install --quiet --no-index --find-links /opt/veriftools/wheels --target .deps icontract 2>&1 | grep -v -i -E 'warning|notice|dependency resolver|requires|incompatible' || true
fi
/venv/bin/python -c "import sys; sys.path.append('.deps'); import icontract; print('icontract', icontract.__version__)" 2>/dev/null || echo "icontract unavailable: contract shim will be used"
exit 0
